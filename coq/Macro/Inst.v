(* Macro/Inst.v — the quantity instance (Rt/Quantity.v records) that a
   generated definition amounts to: the required trait items are read off the
   generator's actual output (gen_def: VARIANTS order, match arms, REF_UNIT),
   the methods are the translated templates (Gen/Kernels.v).  Which template
   implements which operator on which path is what codegen_qty_* emit; the
   translator checks every generated impl against its template. *)
From QV Require Import Rt.Prelude Rt.Amount Rt.Quantity Macro.Defs Gen.Prefixes Gen.Kernels.

Section Inst.
Context (am : Amount).
Notation gdef := (gen_def SIPrefix).

Fixpoint index_of (v : ustring) (l : list ustring) : option nat :=
  match l with
  | [] => None
  | x :: r => if ustr_eqb x v then Some 0 else option_map S (index_of v r)
  end.

Definition variant_of (g : gdef) (i : nat) : ustring := nth i (gd_VARIANTS g) [].
Definition gen_name (g : gdef) (i : nat) : ustring :=
  match arm_lookup (variant_of g i) (gd_name_arms g) with Some s => s | None => [] end.
Definition gen_symbol (g : gdef) (i : nat) : ustring :=
  match arm_lookup (variant_of g i) (gd_symbol_arms g) with Some s => s | None => [] end.
Definition gen_si_prefix (g : gdef) (i : nat) : option SIPrefix :=
  arm_lookup (variant_of g i) (gd_prefix_arms g).      (* wildcard arm: None *)
Definition gen_scale_lit (g : gdef) (i : nat) : option lit :=
  arm_lookup (variant_of g i) (gd_scale_arms g).
Definition gen_scale (g : gdef) (i : nat) : am :=
  match gen_scale_lit g i with Some l => a_lit am l | None => a_zero am end.
Definition gen_ref (g : gdef) : nat :=
  match gd_ref_unit_qty g with
  | Some v => match index_of v (gd_VARIANTS g) with Some i => i | None => 0 end
  | None => 0
  end.
Definition gen_iter (g : gdef) : list nat := seq 0 (length (gd_VARIANTS g)).

Definition base_of_gen (g : gdef) : QBase am :=
  match gd_path g with
  | PSingle => mkQBase am (struct1 am) tmpl_Quantity_PSingle_new tmpl_Quantity_PSingle_amount tmpl_Quantity_PSingle_unit
                 (gen_iter g) (gen_name g) (gen_symbol g) (gen_si_prefix g) (gen_ref g) (gen_scale g)
  | PNoRef => mkQBase am (struct2 am) tmpl_Quantity_PNoRef_new tmpl_Quantity_PNoRef_amount tmpl_Quantity_PNoRef_unit
                 (gen_iter g) (gen_name g) (gen_symbol g) (gen_si_prefix g) (gen_ref g) (gen_scale g)
  | PRef => mkQBase am (struct2 am) tmpl_Quantity_PRef_new tmpl_Quantity_PRef_amount tmpl_Quantity_PRef_unit
                 (gen_iter g) (gen_name g) (gen_symbol g) (gen_si_prefix g) (gen_ref g) (gen_scale g)
  end.

(** operators per code path.  Impls a path does not generate (PartialEq /
    PartialOrd of single-unit types, HasRefUnit::_fit without reference unit)
    do not exist in Rust; the record needs a value, [Panic POther] marks them
    and nothing that type-checks in Rust reaches them (impl table, C06). *)
Definition full_of_gen (g : gdef) : QFull am :=
  let b := base_of_gen g in
  mkQFull am b
    (match gd_path g with
     | PRef => tmpl_PartialEq_Qty_Self_PRef b
     | PNoRef => fun x y => Ok (tmpl_PartialEq_Qty_Self_PNoRef b x y)
     | PSingle => fun _ _ => Panic POther end)
    (match gd_path g with
     | PRef => tmpl_PartialOrd_Qty_none_PRef b
     | PNoRef => fun x y => Ok (tmpl_PartialOrd_Qty_none_PNoRef b x y)
     | PSingle => fun _ _ => Panic POther end)
    (match gd_path g with
     | PRef => tmpl_Add_Qty_Self_PRef b | PNoRef => tmpl_Add_Qty_Self_PNoRef b | PSingle => tmpl_Add_Qty_Self_PSingle b end)
    (match gd_path g with
     | PRef => tmpl_Sub_Qty_Self_PRef b | PNoRef => tmpl_Sub_Qty_Self_PNoRef b | PSingle => tmpl_Sub_Qty_Self_PSingle b end)
    (match gd_path g with
     | PRef => tmpl_Div_Qty_Self_PRef b | PNoRef => tmpl_Div_Qty_Self_PNoRef b | PSingle => tmpl_Div_Qty_Self_PSingle b end)
    (match gd_path g with
     | PRef => HasRefUnit__fit b | _ => fun _ => Panic POther end).

(** the dimensionless quantity: AmountT with its unit One (src/lib.rs impls) *)
Definition amount_base : QBase am :=
  mkQBase am (A am) QuantityAmountT_new QuantityAmountT_amount QuantityAmountT_unit
    UnitOne_iter (UnitOne_name (am:=am)) (UnitOne_symbol (am:=am)) (UnitOne_si_prefix (am:=am))
    HasRefUnitAmountT_REF_UNIT (LinearScaledUnitOne_scale (am:=am)).

(** its operators are the amount type's own *)
Definition amount_full : QFull am :=
  mkQFull am amount_base
    (fun x y => Ok (a_eqb am x y)) (fun x y => Ok (a_cmp am x y))
    (a_add am) (a_sub am) (a_div am)
    (fun a => Ok (HasRefUnitAmountT__fit a)).
End Inst.
