(* Macro/Casing.v — model of the crate convert_case 0.8 as the macro uses it:
   [ident.to_case(Case::UpperCamel)] for the unit variant and
   [variant.to_case(Case::UpperSnake)] for the unit constant, restricted to what
   identifiers can contain.  Word boundaries (Boundary::defaults()): the
   delimiter '_' (removed), lower|UPPER, lower|digit, UPPER|digit, digit|lower,
   digit|UPPER, and the acronym rule UPPER|UPPER lower.  Non-ASCII characters
   are treated as caseless (no boundary; left unchanged) — a limit of the model. *)
From QV Require Import Rt.Prelude.

Definition is_upper (c : N) : bool := (65 <=? c)%N && (c <=? 90)%N.
Definition is_lower (c : N) : bool := (97 <=? c)%N && (c <=? 122)%N.
Definition is_digit (c : N) : bool := (48 <=? c)%N && (c <=? 57)%N.
Definition to_upper (c : N) : N := if is_lower c then (c - 32)%N else c.
Definition to_lower (c : N) : N := if is_upper c then (c + 32)%N else c.

(** is there a word boundary between [prev] and [cur] ([next] follows [cur])? *)
Definition boundary (prev : option N) (cur : N) (next : option N) : bool :=
  match prev with
  | None => false
  | Some p =>
      (is_lower p && is_upper cur) || (is_lower p && is_digit cur) || (is_upper p && is_digit cur)
      || (is_digit p && is_lower cur) || (is_digit p && is_upper cur)
      || (is_upper p && is_upper cur && match next with Some n => is_lower n | None => false end)
  end.

Definition flush (cur : ustring) : list ustring := match cur with [] => [] | _ => [rev cur] end.

Fixpoint words_go (prev : option N) (cur : ustring) (s : ustring) : list ustring :=
  match s with
  | [] => flush cur
  | c :: r =>
      if (c =? 95)%N then flush cur ++ words_go None [] r
      else if boundary prev c (hd_error r) then flush cur ++ words_go (Some c) [c] r
      else words_go (Some c) (c :: cur) r
  end.

Definition words (s : ustring) : list ustring := words_go None [] s.

Definition capital (w : ustring) : ustring :=
  match w with [] => [] | c :: r => to_upper c :: map to_lower r end.

Definition upper_camel (s : ustring) : ustring := concat (map capital (words s)).

Fixpoint join_us (l : list ustring) : ustring :=
  match l with
  | [] => []
  | [w] => w
  | w :: r => w ++ 95%N :: join_us r
  end.

Definition upper_snake (s : ustring) : ustring := join_us (map (map to_upper) (words s)).

(** the unit name: the identifier with '_' shown as ' ' *)
Definition name_of_ident (s : ustring) : ustring := map (fun c => if (c =? 95)%N then 32%N else c) s.
