(* Macro/Defs.v — the data types in which the translator (tools/j2v) writes
   down (a) what a quantity definition says in the source (token level) and
   (b) what the repository's code generator actually emitted for it. *)
From QV Require Import Rt.Prelude.

(** ** (a) raw declarations *)
Inductive tok :=
| TIdent (s : ustring)
| TStr (s : ustring)
| TInt (l : lit)      (* integer literal (no point, no exponent) *)
| TFloat (l : lit)    (* float literal *)
| TPunct (c : N)      (* a single punctuation character, e.g. ',' = 44, '*' = 42, '/' = 47 *)
| TGroup (inner : list tok)
| TOtherLit.

Inductive attr_kind := AUnit | ARefUnit | AOtherAttr.

Record raw_attr := mkraw_attr {
  ra_kind : attr_kind;
  ra_has_args : bool;           (* written with a parenthesised list *)
  ra_args : list tok
}.

Inductive item_kind := IStruct | IEnum | IOtherItem.

Record raw_def := mkraw_def {
  rd_ident : ustring;
  rd_kind : item_kind;
  rd_n_generics : N;
  rd_n_fields : N;
  rd_qargs : list tok;          (* tokens inside #[quantity( ... )] *)
  rd_attrs : list raw_attr      (* attributes after #[quantity], in source order *)
}.

(** ** (b) generator output *)
Inductive gen_path := PSingle | PNoRef | PRef.

Record impl_row := mkimpl_row {
  ir_trait : ustring;           (* e.g. "Mul" *)
  ir_self : ustring;            (* self type, text without blanks, e.g. "&Length" *)
  ir_rhs : ustring;             (* first generic argument of the trait, "" if none; "Self" resolved *)
  ir_output : ustring;          (* associated type Output, "" if none; resolved to a type name *)
  ir_where : list ustring;      (* where-predicates, text without blanks *)
  ir_generics : list ustring;   (* generic parameters with bounds *)
  ir_template : ustring         (* identifier of the body template this impl is an instance of *)
}.

Record gen_def (P : Type) := mkgen_def {
  gd_qty : ustring;                       (* struct identifier *)
  gd_enum : ustring;                      (* unit enum identifier *)
  gd_path : gen_path;                     (* which of the three code paths was taken *)
  gd_enum_variants : list ustring;        (* enum variants, declaration order *)
  gd_VARIANTS : list ustring;             (* the VARIANTS array, element order *)
  gd_name_arms : list (ustring * ustring);          (* fn name: variant => text *)
  gd_symbol_arms : list (ustring * ustring);
  gd_prefix_arms : list (ustring * P);              (* fn si_prefix: variant => Some(prefix); default None *)
  gd_scale_arms : list (ustring * lit);             (* fn scale: variant => Amnt!(lit) *)
  gd_ref_unit_unit : option ustring;      (* LinearScaledUnit::REF_UNIT *)
  gd_ref_unit_qty : option ustring;       (* HasRefUnit::REF_UNIT *)
  gd_consts : list (ustring * ustring);   (* pub const NAME: Enum = Enum::Variant *)
  gd_struct_fields : list ustring;
  gd_serde_enum : bool;                   (* cfg_attr(feature = "serde", derive(Deserialize, Serialize)) present *)
  gd_serde_struct : bool;
  gd_impls : list impl_row
}.
Arguments mkgen_def {P}.
Arguments gd_qty {P}. Arguments gd_enum {P}. Arguments gd_path {P}.
Arguments gd_enum_variants {P}. Arguments gd_VARIANTS {P}. Arguments gd_name_arms {P}.
Arguments gd_symbol_arms {P}. Arguments gd_prefix_arms {P}. Arguments gd_scale_arms {P}.
Arguments gd_ref_unit_unit {P}. Arguments gd_ref_unit_qty {P}. Arguments gd_consts {P}.
Arguments gd_struct_fields {P}. Arguments gd_serde_enum {P}. Arguments gd_serde_struct {P}.
Arguments gd_impls {P}.

(** one entry of the generated catalogue *)
Record cat_entry (P : Type) := mkcat_entry {
  ce_crate : ustring;           (* "quantities", "astronomical", "synthetic" *)
  ce_module : ustring;          (* module (= feature) the definition lives in *)
  ce_raw : raw_def;
  ce_gen : gen_def P
}.
Arguments mkcat_entry {P}. Arguments ce_crate {P}. Arguments ce_module {P}.
Arguments ce_raw {P}. Arguments ce_gen {P}.

(** first-match look-up in a list of match arms *)
Fixpoint arm_lookup {V} (k : ustring) (arms : list (ustring * V)) : option V :=
  match arms with
  | [] => None
  | (k', v) :: r => if ustr_eqb k' k then Some v else arm_lookup k r
  end.
