(* Macro/TempInst.v — the predefined temperature conversion table
   (Gen/TempTable.v, regenerated from src/temperature.rs) resolved against the
   generated Temperature type: constants -> unit indices, literals -> amounts. *)
From QV Require Import Rt.Prelude Rt.Amount Rt.Quantity Macro.Defs Gen.Prefixes Gen.Catalogue Gen.TempTable
  Gen.Kernels Macro.Inst.

(** * The predefined temperature table, resolved against the generated type *)
Definition temp_gen := cat_Temperature_gen.

Definition resolve_const (c : ustring) : option nat :=
  match arm_lookup c (gd_consts temp_gen) with
  | Some v => index_of v (gd_VARIANTS temp_gen)
  | None => None
  end.

Fixpoint map_opt {T R} (f : T -> option R) (l : list T) : option (list R) :=
  match l with
  | [] => Some []
  | x :: r => match f x, map_opt f r with Some y, Some ys => Some (y :: ys) | _, _ => None end
  end.

(** rows as (from index, to index, factor literal, offset literal) *)
Definition temp_rows_lit : option (list (nat * nat * lit * lit)) :=
  map_opt (fun '(f, t, k, c) => match resolve_const f, resolve_const t with
                               | Some i, Some j => Some (i, j, k, c) | _, _ => None end) temperature_table_rows.

Definition temp_rows (am : Amount) : list (nat * nat * A am * A am) :=
  match temp_rows_lit with
  | Some l => map (fun '(i, j, k, c) => (i, j, a_lit am k, a_lit am c)) l
  | None => []
  end.

