(* Macro/Analyze.v — hand model of the macro front end of
   qty-macros/src/quantity_attr_helper.rs: UnitDef::parse (argument grammar of
   #[unit(...)] / #[ref_unit(...)]), analyze (classification, reference unit
   first, STABLE sort by the f64 value of the scale literal, or by name without
   reference unit), and what codegen derives from the analysed definition
   (variant identifiers, names, constants, path).  Tied to the repository by
   computing, on every run, that it reproduces the generator's actual output
   for every definition (Proofs/C09.v, registry_ok). *)
From QV Require Import Rt.Prelude Rt.Amount Macro.Defs Macro.Casing Gen.Prefixes Amount.F64.

Record udecl := mkudecl {
  ud_ident : ustring;               (* identifier as written *)
  ud_symbol : ustring;
  ud_prefix : option ustring;       (* SI prefix identifier *)
  ud_scale : option lit;
  ud_doc : option ustring
}.

(** after an argument: a comma, or the end of the list *)
Definition eat_comma (ts : list tok) : option (list tok) :=
  match ts with
  | TPunct c :: r => if (c =? 44)%N then Some r else None
  | [] => Some []
  | _ => None
  end.

(** UnitDef::parse: ident , "symbol" [, PREFIX] [, scale literal] [, "doc"] *)
Definition parse_unit_args (ts : list tok) : option udecl :=
  match ts with
  | TIdent id :: TPunct c0 :: TStr sym :: r0 =>
      match (if (c0 =? 44)%N then eat_comma r0 else None) with
      | None => None
      | Some r1 =>
          let pr := match r1 with
                    | TIdent p :: r => match eat_comma r with Some r' => Some (Some p, r') | None => None end
                    | _ => Some (None, r1)
                    end in
          match pr with
          | None => None
          | Some (prefix, r2) =>
              let sc := match r2 with
                        | TInt l :: r | TFloat l :: r => match eat_comma r with Some r' => Some (Some l, r') | None => None end
                        | _ => Some (None, r2)
                        end in
              match sc with
              | None => None
              | Some (scale, r3) =>
                  match r3 with
                  | [] => Some (mkudecl id sym prefix scale None)
                  | [TStr d] => Some (mkudecl id sym prefix scale (Some d))
                  | _ => None
                  end
              end
          end
      end
  | _ => None
  end.

(** stable insertion sort: [x] goes before the first element strictly greater *)
Section Sort.
Context {T : Type} (gt : T -> T -> bool).     (* gt a b: a sorts strictly after b *)
Fixpoint insert_stable (x : T) (l : list T) : list T :=
  match l with
  | [] => [x]
  | y :: r => if gt y x then x :: l else y :: insert_stable x r
  end.
Definition sort_stable (l : list T) : list T := fold_left (fun acc x => insert_stable x acc) l [].
End Sort.

Definition lit_f64 (l : lit) : f64 := match f64_of_lit l with Some x => x | None => f64_zero end.
Definition scale_key (u : udecl) : f64 :=
  match ud_scale u with Some l => lit_f64 l | None => f64_zero end.
Definition key_gt (a b : udecl) : bool := match f64_cmp (scale_key a) (scale_key b) with Some Gt => true | _ => false end.
Definition name_gt (a b : udecl) : bool :=
  match ustr_cmp (name_of_ident (ud_ident a)) (name_of_ident (ud_ident b)) with Gt => true | _ => false end.

Definition one_lit : lit := mklit false 10 (-1) false.      (* Amnt!(1.0) *)

Record analysed := mkanalysed {
  an_units : list udecl;            (* in iteration order *)
  an_ref : option ustring           (* variant identifier of the reference unit *)
}.

Fixpoint parse_all (l : list raw_attr) : option (list udecl) :=
  match l with
  | [] => Some []
  | a :: r => match parse_unit_args (ra_args a), parse_all r with Some u, Some us => Some (u :: us) | _, _ => None end
  end.

(** analyze(): None = the definition is rejected *)
Definition analyze (d : raw_def) : option analysed :=
  let attrs := List.filter (fun a => match ra_kind a with AOtherAttr => false | _ => true end) (rd_attrs d) in
  let refs := List.filter (fun a => match ra_kind a with ARefUnit => true | _ => false end) attrs in
  let units := List.filter (fun a => match ra_kind a with AUnit => true | _ => false end) attrs in
  match refs with
  | [] =>
      match parse_all units with
      | Some (u :: us) =>
          if forallb (fun u => match ud_scale u, ud_prefix u with None, None => true | _, _ => false end) (u :: us)
          then Some (mkanalysed (sort_stable name_gt (u :: us)) None) else None
      | _ => None
      end
  | [ra] =>
      match parse_unit_args (ra_args ra), parse_all units with
      | _, Some [] => None          (* get_unit_attrs: at least one #[unit] is required, also beside a #[ref_unit] *)
      | Some r, Some us =>
          match ud_scale r with
          | Some _ => None
          | None =>
              if forallb (fun u => match ud_scale u with Some _ => true | None => false end) us
              then let r1 := mkudecl (ud_ident r) (ud_symbol r) (ud_prefix r) (Some one_lit) (ud_doc r) in
                   Some (mkanalysed (sort_stable key_gt (r1 :: us)) (Some (upper_camel (ud_ident r))))
              else None
          end
      | _, _ => None
      end
  | _ => None
  end.

(** what codegen derives *)
Definition variant_of_decl (u : udecl) : ustring := upper_camel (ud_ident u).
Definition expected_path (a : analysed) : gen_path :=
  match an_units a with
  | [_] => PSingle
  | _ => match an_ref a with Some _ => PRef | None => PNoRef end
  end.

Definition prefix_of_ident (s : ustring) : option SIPrefix :=
  List.find (fun p => ustr_eqb (SIPrefix_ident p) s) SIPrefix_variants.

(** * the whole front end: parse_item / check_struct / analyze / parse_args.
      true = the definition is accepted (code is generated), false = the macro aborts *)
From QV Require Import Macro.Impls.
Definition validate (d : raw_def) : bool :=
  match rd_kind d with IStruct => true | _ => false end      (* parse_item: the item must parse as a struct *)
  && N.eqb (rd_n_generics d) 0                                (* check_struct *)
  && N.eqb (rd_n_fields d) 0
  && match analyze d with Some _ => true | None => false end
  && match parse_qargs (rd_qargs d) with DBad => false | _ => true end.
