(* Macro/Impls.v — hand model of codegen_impl_mul_div_qties: which operator
   impls a derivation  R = A * B  or  R = A / B  produces (owned form and the
   three borrowed-operand forwarders of each), as rows
   (trait, Self, Rhs, Output, template).  Tied to the generator by the computed
   fact that it reproduces the actual impl table of every derived definition. *)
From Coq Require Import String.
From QV Require Import Rt.Prelude Macro.Defs.

Definition xrow := (ustring * ustring * ustring * ustring * ustring)%type.

Definition amp (s : ustring) : ustring := 38%N :: s.
Definition out_of (tr a b : ustring) : ustring := us "<" ++ a ++ us "as" ++ tr ++ us "<" ++ b ++ us ">>::Output".

Definition four (tr a b r t_vv t_rv t_vr t_rr : ustring) : list xrow :=
  [ (tr, a, b, r, t_vv);
    (tr, amp a, b, out_of tr a b, t_rv);
    (tr, a, amp b, out_of tr a b, t_vr);
    (tr, amp a, amp b, out_of tr a b, t_rr) ].

Definition amount_t : ustring := us "AmountT".

(** codegen_impl_mul_qties res lhs rhs *)
Definition mul_rows (r a b : ustring) : list xrow :=
  if ustr_eqb a b then
    four (us "Mul") a a r (us "Mul_Qty_Self_PRef") (us "Mul_refQty_Same") (us "Mul_Qty_refSelf") (us "Mul_refQty_Self")
  else
    four (us "Mul") a b r (us "Mul_Qty_Qty") (us "Mul_refQty_Qty") (us "Mul_Qty_refQty") (us "Mul_refQty_refQty")
    ++ four (us "Mul") b a r (us "Mul_Qty_Qty") (us "Mul_refQty_Qty") (us "Mul_Qty_refQty") (us "Mul_refQty_refQty").

(** codegen_impl_div_qties res lhs rhs:  lhs / rhs -> res *)
Definition div_rows (r a b : ustring) : list xrow :=
  if ustr_eqb a amount_t then
    four (us "Div") a b r (us "Div_Amnt_Qty") (us "Div_refAmnt_Qty") (us "Div_Amnt_refQty") (us "Div_refAmnt_refQty")
  else
    four (us "Div") a b r (us "Div_Qty_Qty") (us "Div_refQty_Qty") (us "Div_Qty_refQty") (us "Div_refQty_refQty").

(** parse_args: the tokens inside #[quantity( ... )] *)
Inductive derivation := DNone | DMul (a b : ustring) | DDiv (a b : ustring) | DBad.

Definition parse_qargs (ts : list tok) : derivation :=
  match ts with
  | [] => DNone
  | [TIdent a; TPunct c; TIdent b] =>
      if (c =? 42)%N then DMul a b else if (c =? 47)%N then DDiv a b else DBad
  | _ => DBad
  end.

Definition expected_derived (r : ustring) (d : derivation) : list xrow :=
  match d with
  | DMul a b => mul_rows r a b ++ div_rows a r b ++ (if ustr_eqb a b then [] else div_rows b r a)
  | DDiv a b => div_rows r a b ++ mul_rows a r b ++ div_rows b a r
  | _ => []
  end.

(** the derived rows of an actual impl table: Mul / Div impls that are not the
    basic ones every quantity gets *)
Definition basic_template (t : ustring) : bool :=
  existsb (ustr_eqb t)
    [us "Mul_Amnt_Unit"; us "Mul_Unit_Amnt"; us "Mul_Amnt_Qty"; us "Mul_Qty_Amnt"; us "Div_Qty_Amnt";
     us "Mul_Qty_Rate"; us "Div_Qty_Rate";
     us "Div_Qty_Self_PRef"; us "Div_Qty_Self_PNoRef"; us "Div_Qty_Self_PSingle"].

Definition is_derived_row (r : impl_row) : bool :=
  (ustr_eqb (ir_trait r) (us "Mul") || ustr_eqb (ir_trait r) (us "Div")) && negb (basic_template (ir_template r)).

Definition xrow_of (r : impl_row) : xrow := (ir_trait r, ir_self r, ir_rhs r, ir_output r, ir_template r).

Definition xrow_eqb (x y : xrow) : bool :=
  let '(a1, a2, a3, a4, a5) := x in let '(b1, b2, b3, b4, b5) := y in
  ustr_eqb a1 b1 && ustr_eqb a2 b2 && ustr_eqb a3 b3 && ustr_eqb a4 b4 && ustr_eqb a5 b5.

Definition same_rows (l1 l2 : list xrow) : bool :=
  Nat.eqb (List.length l1) (List.length l2)
  && forallb (fun x => existsb (xrow_eqb x) l2) l1
  && forallb (fun x => existsb (xrow_eqb x) l1) l2.
