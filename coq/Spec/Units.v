(* Spec/Units.v — the published definitions of the predefined units, written
   independently of the repository: for every unit its name, symbol, SI prefix
   (if it is an SI-prefixed multiple of the quantity's reference unit) and its
   definition chained down to the reference unit as an EXACT number (a rational,
   or a rational multiple of 1/pi for the parsec family).

   Sources: SI brochure (9th ed.) for prefixes and SI units; the international
   yard and pound agreement of 1959 (1 yd = 0.9144 m, 1 lb = 0.45359237 kg);
   imperial/US customary chains (12 in = 1 ft, 3 ft = 1 yd, 22 yd = 1 ch,
   10 ch = 1 fur, 8 fur = 1 mi, 16 oz = 1 lb, 14 lb = 1 st, 1 ac = 4840 yd²);
   metric carat = 200 mg; IEC 80000-13 binary prefixes (Ki = 2^10, ...), 1 B = 8 b;
   IAU 2012 resolution B2 (1 au = 149 597 870 700 m), IAU 2015 B2 (pc = 648000/pi au);
   c = 299 792 458 m/s; Julian year = 365.25 d; light-year = c * Julian year;
   sidereal day = 23 h 56 min 4 s = 86164 s; mass ratios as documented by the crate
   (IAU nominal values). *)
From Coq Require Import QArith String.
From QV Require Import Rt.Prelude.
Local Open Scope Q_scope.
Local Open Scope string_scope.

Inductive sdef :=
| DQ (q : Q)            (* exact rational multiple of the reference unit *)
| DOverPi (k : Q)       (* k / pi reference units *)
| DNoScale.             (* the quantity has no reference unit *)

Record uspec := mkuspec { us_name : ustring; us_symbol : ustring; us_prefix : option ustring; us_def : sdef }.
Definition U (name sym : string) (p : option string) (d : sdef) : uspec :=
  mkuspec (u8 name) (u8 sym) (option_map us p) d.

Definition p10 (e : Z) : Q := if (0 <=? e)%Z then inject_Z (10 ^ e) else 1 / inject_Z (10 ^ (- e)).
Definition P (s : string) := Some s.

(* chains *)
Definition inch := 254 # 10000.        (* 2.54 cm *)
Definition foot := 12 * inch.
Definition yard := 3 * foot.
Definition chain := 22 * yard.
Definition furlong := 10 * chain.
Definition mile := 8 * furlong.
Definition pound := 45359237 # 100000000.
Definition two (n : Z) : Q := inject_Z (2 ^ n).

Definition length_units : list uspec :=
  [ U "Meter" "m" (P "NONE") (DQ 1);
    U "Nanometer" "nm" (P "NANO") (DQ (p10 (-9)));
    U "Micrometer" "µm" (P "MICRO") (DQ (p10 (-6)));
    U "Millimeter" "mm" (P "MILLI") (DQ (p10 (-3)));
    U "Centimeter" "cm" (P "CENTI") (DQ (p10 (-2)));
    U "Inch" "in" None (DQ inch);
    U "Decimeter" "dm" (P "DECI") (DQ (p10 (-1)));
    U "Foot" "ft" None (DQ foot);
    U "Yard" "yd" None (DQ yard);
    U "Chain" "ch" None (DQ chain);
    U "Furlong" "fur" None (DQ furlong);
    U "Kilometer" "km" (P "KILO") (DQ (p10 3));
    U "Mile" "mi" None (DQ mile) ].

Definition mass_units : list uspec :=
  [ U "Kilogram" "kg" (P "KILO") (DQ 1);
    U "Milligram" "mg" (P "MILLI") (DQ (p10 (-6)));
    U "Carat" "ct" None (DQ (200 * p10 (-6)));
    U "Gram" "g" (P "NONE") (DQ (p10 (-3)));
    U "Ounce" "oz" None (DQ (pound / 16));
    U "Pound" "lb" None (DQ pound);
    U "Stone" "st" None (DQ (14 * pound));
    U "Tonne" "t" (P "MEGA") (DQ (p10 3)) ].

Definition duration_units : list uspec :=
  [ U "Second" "s" (P "NONE") (DQ 1);
    U "Nanosecond" "ns" (P "NANO") (DQ (p10 (-9)));
    U "Microsecond" "µs" (P "MICRO") (DQ (p10 (-6)));
    U "Millisecond" "ms" (P "MILLI") (DQ (p10 (-3)));
    U "Minute" "min" None (DQ 60);
    U "Hour" "h" None (DQ (60 * 60));
    U "Day" "d" None (DQ (24 * 60 * 60)) ].

Definition area_units : list uspec :=
  [ U "Square Meter" "m²" (P "NONE") (DQ 1);
    U "Square Millimeter" "mm²" (P "MICRO") (DQ (p10 (-3) * p10 (-3)));
    U "Square Centimeter" "cm²" None (DQ (p10 (-2) * p10 (-2)));
    U "Square Inch" "in²" None (DQ (inch * inch));
    U "Square Decimeter" "dm²" (P "CENTI") (DQ (p10 (-1) * p10 (-1)));
    U "Square Foot" "ft²" None (DQ (foot * foot));
    U "Square Yard" "yd²" None (DQ (yard * yard));
    U "Are" "a" (P "HECTO") (DQ 100);
    U "Acre" "ac" None (DQ (4840 * yard * yard));
    U "Hectare" "ha" None (DQ (100 * 100));
    U "Square Kilometer" "km²" (P "MEGA") (DQ (p10 3 * p10 3));
    U "Square Mile" "mi²" None (DQ (mile * mile)) ].

Definition volume_units : list uspec :=
  [ U "Cubic Meter" "m³" (P "NONE") (DQ 1);
    U "Cubic Millimeter" "mm³" (P "NANO") (DQ (p10 (-9)));
    U "Cubic Centimeter" "cm³" (P "MICRO") (DQ (p10 (-6)));
    U "Milliliter" "ml" (P "MICRO") (DQ (p10 (-3) * p10 (-3)));
    U "Centiliter" "cl" None (DQ (p10 (-2) * p10 (-3)));
    U "Cubic Inch" "in³" None (DQ (inch * inch * inch));
    U "Deciliter" "dl" None (DQ (p10 (-1) * p10 (-3)));
    U "Cubic Decimeter" "dm³" (P "MILLI") (DQ (p10 (-3)));
    U "Liter" "l" (P "MILLI") (DQ (p10 (-3)));
    U "Cubic Foot" "ft³" None (DQ (foot * foot * foot));
    U "Cubic Yard" "yd³" None (DQ (yard * yard * yard));
    U "Cubic Kilometer" "km³" (P "GIGA") (DQ (p10 9)) ].

Definition speed_units : list uspec :=
  [ U "Meter per Second" "m/s" (P "NONE") (DQ 1);
    U "Kilometer per Hour" "km/h" None (DQ (1000 / 3600));
    U "Miles per Hour" "mph" None (DQ (mile / 3600)) ].

Definition acceleration_units : list uspec :=
  [ U "Meter per Second squared" "m/s²" (P "NONE") (DQ 1);
    U "Yards per Second squared" "yd/s²" None (DQ yard) ].

Definition force_units : list uspec :=
  [ U "Newton" "N" (P "NONE") (DQ 1);
    U "Joule per Meter" "J/m" (P "NONE") (DQ 1) ].

Definition energy_units : list uspec :=
  [ U "Joule" "J" (P "NONE") (DQ 1);
    U "Newton Meter" "Nm" (P "NONE") (DQ 1);
    U "Watt Second" "Ws" (P "NONE") (DQ 1);
    U "Kilowatt Hour" "kWh" None (DQ (1000 * 3600)) ].

Definition power_units : list uspec :=
  [ U "Watt" "W" (P "NONE") (DQ 1);
    U "Milliwatt" "mW" (P "MILLI") (DQ (p10 (-3)));
    U "Kilowatt" "kW" (P "KILO") (DQ (p10 3));
    U "Megawatt" "MW" (P "MEGA") (DQ (p10 6));
    U "Gigawatt" "GW" (P "GIGA") (DQ (p10 9));
    U "Terawatt" "TW" (P "TERA") (DQ (p10 12)) ].

Definition frequency_units : list uspec :=
  [ U "Hertz" "Hz" (P "NONE") (DQ 1);
    U "Kilohertz" "kHz" (P "KILO") (DQ (p10 3));
    U "Megahertz" "MHz" (P "MEGA") (DQ (p10 6));
    U "Gigahertz" "GHz" (P "GIGA") (DQ (p10 9)) ].

(* information: reference unit byte = 8 bit; decimal prefixes powers of 1000, binary prefixes powers of 1024 *)
Definition data_units (per : string) (persym : string) : list uspec :=
  let n (s : string) := (s ++ per)%string in
  let y (s : string) := (s ++ persym)%string in
  [ U (n "Byte") (y "B") (P "NONE") (DQ 1);
    U (n "Bit") (y "b") None (DQ (1 / 8));
    U (n "Kilobit") (y "kb") None (DQ (p10 3 / 8));
    U (n "Kibibit") (y "Kib") None (DQ (two 10 / 8));
    U (n "Kilobyte") (y "kB") (P "KILO") (DQ (p10 3));
    U (n "Kibibyte") (y "KiB") None (DQ (two 10));
    U (n "Megabit") (y "Mb") None (DQ (p10 6 / 8));
    U (n "Mebibit") (y "Mib") None (DQ (two 20 / 8));
    U (n "Megabyte") (y "MB") (P "MEGA") (DQ (p10 6));
    U (n "Mebibyte") (y "MiB") None (DQ (two 20));
    U (n "Gigabit") (y "Gb") None (DQ (p10 9 / 8));
    U (n "Gibibit") (y "Gib") None (DQ (two 30 / 8));
    U (n "Gigabyte") (y "GB") (P "GIGA") (DQ (p10 9));
    U (n "Gibibyte") (y "GiB") None (DQ (two 30));
    U (n "Terabit") (y "Tb") None (DQ (p10 12 / 8));
    U (n "Tebibit") (y "Tib") None (DQ (two 40 / 8));
    U (n "Terabyte") (y "TB") (P "TERA") (DQ (p10 12));
    U (n "Tebibyte") (y "TiB") None (DQ (two 40)) ].

Definition temperature_units : list uspec :=
  [ U "Kelvin" "K" None DNoScale;
    U "Degree Celsius" "°C" None DNoScale;
    U "Degree Fahrenheit" "°F" None DNoScale ].

(* astronomical crate *)
Definition au_m : Q := 149597870700.            (* IAU 2012 B2 *)
Definition c_mps : Q := 299792458.
Definition julian_year_s : Q := 31557600.       (* 365.25 d *)
Definition ly_au : Q := julian_year_s * c_mps / au_m.

Definition astro_mass_units : list uspec :=
  [ U "Solar Mass" "M☉" None (DQ 1);
    U "Lunar Mass" "M☾" None (DQ (1 / 27068510));
    U "Earth Mass" "M🜨" None (DQ (10000 / 3329460487));
    U "Jupiter Mass" "M♃" None (DQ (1000000 / 1047348644)) ].

Definition astro_length_units : list uspec :=
  [ U "Astronomical Unit" "au" None (DQ 1);
    U "Kilometer" "km" None (DQ (1000 / au_m));
    U "Lightsecond" "ls" None (DQ (c_mps / au_m));
    U "Lightyear" "ly" None (DQ ly_au);
    U "Parsec" "pc" None (DOverPi 648000);
    U "Kilolightyear" "kly" None (DQ (p10 3 * ly_au));
    U "Kiloparsec" "kpc" None (DOverPi (648000 * p10 3));
    U "Megalightyear" "Mly" None (DQ (p10 6 * ly_au));
    U "Megaparsec" "Mpc" None (DOverPi (648000 * p10 6));
    U "Gigalightyear" "Gly" None (DQ (p10 9 * ly_au));
    U "Gigaparsec" "Gpc" None (DOverPi (648000 * p10 9)) ].

Definition astro_duration_units : list uspec :=
  [ U "Day" "d" None (DQ 1);
    U "Second" "s" None (DQ (1 / 86400));
    U "Minute" "min" None (DQ (60 / 86400));
    U "Hour" "h" None (DQ (3600 / 86400));
    U "Sideral Day" "dₛ" None (DQ (86164 / 86400));
    U "Julian Year" "a" None (DQ (36525 # 100));
    U "Gregorian Year" "yr" None (DQ (3652425 # 10000));
    U "Earth Period" "T🜨" None (DQ (365256363004 # 1000000000)) ].

Definition astro_speed_units : list uspec :=
  [ U "Astronomical Units per Day" "au/d" None (DQ 1);
    U "Kilometer per Hour" "km/h" None (DQ (1000 * 24 / au_m));
    U "Meter per Second" "m/s" None (DQ (86400 / au_m));
    U "Speed of Light" "c" None (DQ (c_mps * 86400 / au_m)) ].

(** (crate, quantity, units) *)
Definition spec_catalogue : list (ustring * ustring * list uspec) :=
  [ (us "quantities", us "Acceleration", acceleration_units);
    (us "quantities", us "Area", area_units);
    (us "quantities", us "DataThroughput", data_units " per Second" "/s");
    (us "quantities", us "DataVolume", data_units "" "");
    (us "quantities", us "Duration", duration_units);
    (us "quantities", us "Energy", energy_units);
    (us "quantities", us "Force", force_units);
    (us "quantities", us "Frequency", frequency_units);
    (us "quantities", us "Length", length_units);
    (us "quantities", us "Mass", mass_units);
    (us "quantities", us "Power", power_units);
    (us "quantities", us "Speed", speed_units);
    (us "quantities", us "Temperature", temperature_units);
    (us "quantities", us "Volume", volume_units);
    (us "astronomical", us "Mass", astro_mass_units);
    (us "astronomical", us "Length", astro_length_units);
    (us "astronomical", us "Duration", astro_duration_units);
    (us "astronomical", us "Speed", astro_speed_units) ].
