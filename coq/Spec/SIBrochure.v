(* Spec/SIBrochure.v — the SI prefixes as published in the SI brochure (9th ed.,
   2019, with the 2022 additions ronna/quetta/ronto/quecto).  Written
   independently of the repository; names capitalised as the library's API
   spells them, "" for the absent prefix. *)
From Coq Require Import String Ascii.
From QV Require Import Rt.Prelude.

(** code points of an ASCII Coq string *)
Fixpoint ustr_of_string (s : string) : ustring :=
  match s with
  | EmptyString => []
  | String c r => N_of_ascii c :: ustr_of_string r
  end.

Open Scope string_scope.

(** exponent, name, symbol — increasing exponent *)
Definition si_brochure : list (Z * ustring * ustring) :=
  [ (-30, ustr_of_string "Quecto", ustr_of_string "q");
    (-27, ustr_of_string "Ronto",  ustr_of_string "r");
    (-24, ustr_of_string "Yocto",  ustr_of_string "y");
    (-21, ustr_of_string "Zepto",  ustr_of_string "z");
    (-18, ustr_of_string "Atto",   ustr_of_string "a");
    (-15, ustr_of_string "Femto",  ustr_of_string "f");
    (-12, ustr_of_string "Pico",   ustr_of_string "p");
    (-9,  ustr_of_string "Nano",   ustr_of_string "n");
    (-6,  ustr_of_string "Micro",  [181%N]);            (* U+00B5 MICRO SIGN *)
    (-3,  ustr_of_string "Milli",  ustr_of_string "m");
    (-2,  ustr_of_string "Centi",  ustr_of_string "c");
    (-1,  ustr_of_string "Deci",   ustr_of_string "d");
    (0,   ustr_of_string "",       ustr_of_string "");
    (1,   ustr_of_string "Deca",   ustr_of_string "da");
    (2,   ustr_of_string "Hecto",  ustr_of_string "h");
    (3,   ustr_of_string "Kilo",   ustr_of_string "k");
    (6,   ustr_of_string "Mega",   ustr_of_string "M");
    (9,   ustr_of_string "Giga",   ustr_of_string "G");
    (12,  ustr_of_string "Tera",   ustr_of_string "T");
    (15,  ustr_of_string "Peta",   ustr_of_string "P");
    (18,  ustr_of_string "Exa",    ustr_of_string "E");
    (21,  ustr_of_string "Zetta",  ustr_of_string "Z");
    (24,  ustr_of_string "Yotta",  ustr_of_string "Y");
    (27,  ustr_of_string "Ronna",  ustr_of_string "R");
    (30,  ustr_of_string "Quetta", ustr_of_string "Q") ]%Z.
