(* Spec/Temperature.v — the physical temperature conversion formulas, written
   independently of the repository, as exact rationals:
     to = from * factor + offset
   K -> °C: t - 273.15          °C -> K: t + 273.15
   K -> °F: t * 9/5 - 459.67    °F -> K: (t + 459.67) * 5/9
   °C -> °F: t * 9/5 + 32       °F -> °C: (t - 32) * 5/9
   Units are identified by their names. *)
From Coq Require Import QArith String.
From QV Require Import Rt.Prelude.
Local Open Scope Q_scope.

Definition n_kelvin : ustring := us "Kelvin".
Definition n_celsius : ustring := us "Degree Celsius".
Definition n_fahrenheit : ustring := us "Degree Fahrenheit".

Definition temperature_formulas : list (ustring * ustring * Q * Q) :=
  [ (n_kelvin, n_celsius, 1, - (27315 # 100));
    (n_celsius, n_kelvin, 1, 27315 # 100);
    (n_kelvin, n_fahrenheit, 9 # 5, - (45967 # 100));
    (n_fahrenheit, n_kelvin, 5 # 9, (45967 # 100) * (5 # 9));
    (n_celsius, n_fahrenheit, 9 # 5, 32);
    (n_fahrenheit, n_celsius, 5 # 9, - (32 * (5 # 9))) ].
