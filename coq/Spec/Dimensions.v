(* Spec/Dimensions.v — physical dimensions of the predefined quantities,
   written independently of the repository: exponent vectors over
   (mass, length, time, temperature, information).  The dimensionless amount
   has the zero vector. *)
From Coq Require Import ZArith String.
From QV Require Import Rt.Prelude.
Local Open Scope Z_scope.

Definition dim := (Z * Z * Z * Z * Z)%type.
Definition dim_add (a b : dim) : dim :=
  let '(a1, a2, a3, a4, a5) := a in let '(b1, b2, b3, b4, b5) := b in (a1 + b1, a2 + b2, a3 + b3, a4 + b4, a5 + b5).
Definition dim_sub (a b : dim) : dim :=
  let '(a1, a2, a3, a4, a5) := a in let '(b1, b2, b3, b4, b5) := b in (a1 - b1, a2 - b2, a3 - b3, a4 - b4, a5 - b5).
Definition dim_eqb (a b : dim) : bool :=
  let '(a1, a2, a3, a4, a5) := a in let '(b1, b2, b3, b4, b5) := b in
  (a1 =? b1) && (a2 =? b2) && (a3 =? b3) && (a4 =? b4) && (a5 =? b5).

(*                                            M   L   T   Th  I  *)
Definition dimensions : list (ustring * dim) :=
  [ (us "AmountT",        ( 0,  0,  0,  0,  0));
    (us "Mass",           ( 1,  0,  0,  0,  0));
    (us "Length",         ( 0,  1,  0,  0,  0));
    (us "Duration",       ( 0,  0,  1,  0,  0));
    (us "Area",           ( 0,  2,  0,  0,  0));
    (us "Volume",         ( 0,  3,  0,  0,  0));
    (us "Speed",          ( 0,  1, -1,  0,  0));
    (us "Acceleration",   ( 0,  1, -2,  0,  0));
    (us "Force",          ( 1,  1, -2,  0,  0));
    (us "Energy",         ( 1,  2, -2,  0,  0));
    (us "Power",          ( 1,  2, -3,  0,  0));
    (us "Frequency",      ( 0,  0, -1,  0,  0));
    (us "DataVolume",     ( 0,  0,  0,  0,  1));
    (us "DataThroughput", ( 0,  0, -1,  0,  1));
    (us "Temperature",    ( 0,  0,  0,  1,  0)) ].

Definition dim_of (q : ustring) : option dim :=
  match List.find (fun x => ustr_eqb (fst x) q) dimensions with Some (_, d) => Some d | None => None end.
