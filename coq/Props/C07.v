(* Props/C07.v — property C07: catalogue units carry their defined scales,
   prefixes and symbols.  Only statements; every proof is `exact <lemma>`. *)
From Coq Require Import Reals QArith String.
From QV Require Import Rt.Prelude Rt.Amount Macro.Defs Gen.Prefixes Gen.Catalogue Macro.Inst Amount.F64 Amount.Dec
  Proofs.Instances Proofs.C09 Spec.Units Proofs.C07.
Local Close Scope Q_scope.
Local Close Scope R_scope.

(** Main crate, every unit of every quantity, both amount types, against the
    independently written Spec/Units.v: same unit set; symbol and SI prefix
    equal; the literal's exact value IS the definition whenever that is a
    terminating decimal; the binary64 scale is within 2^-52 relative of the
    definition; the decimal scale is the definition when it has at most 18
    decimals, otherwise within 10^-18; SI-prefixed scales are exactly ten to
    the difference of prefix exponents; reference units have scale one. *)
Theorem C07_main_crate : forallb (entry_matches_spec true) catalogue_main = true.
Proof. exact main_crate_matches_spec. Qed.

(** Astronomical crate (binary64 only; its literals exceed the decimal type) *)
Theorem C07_astronomical_crate : forallb (entry_matches_spec false) catalogue_astro = true.
Proof. exact astro_crate_matches_spec. Qed.

(** names are spelled by the identifiers, every arm of the generated tables is
    the declared one (shared with C09) *)
Theorem C07_generated_tables_are_declarations : forallb registry_ok all_entries = true.
Proof. exact all_registry_ok. Qed.

Theorem C07_sizes :
  List.length catalogue_main = 14 /\ List.length catalogue_astro = 4 /\
  List.length (flat_map (fun e => gd_VARIANTS (ce_gen e)) catalogue_main) = 112 /\
  List.length (flat_map (fun e => gd_VARIANTS (ce_gen e)) catalogue_astro) = 27.
Proof. exact catalogue_sizes. Qed.

Print Assumptions C07_main_crate.
Print Assumptions C07_astronomical_crate.
Print Assumptions C07_generated_tables_are_declarations.
Print Assumptions C07_sizes.
