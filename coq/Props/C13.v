(* Props/C13.v — property C13: rates relate two quantities consistently.
   Only statements; every proof is `exact <lemma>`.  Structural half. *)
From QV Require Import Rt.Prelude Rt.Amount Rt.Quantity Macro.Defs Gen.Prefixes Gen.Catalogue
  Gen.Kernels Macro.Inst Proofs.Laws Proofs.Instances Proofs.C13.

Theorem C13_accessors : forall (am : Amount) (TQ PQ : QBase am) t tu p pu,
  Rate_term_amount TQ PQ (Rate_new TQ PQ t tu p pu) = t /\
  Rate_term_unit TQ PQ (Rate_new TQ PQ t tu p pu) = tu /\
  Rate_per_unit_multiple TQ PQ (Rate_new TQ PQ t tu p pu) = p /\
  Rate_per_unit TQ PQ (Rate_new TQ PQ t tu p pu) = pu.
Proof. exact @rate_new_accessors. Qed.

Theorem C13_from_qty_vals : forall (am : Amount) (TQ PQ : QBase am) (term : Qt TQ) (per : Qt PQ),
  Rate_from_qty_vals TQ PQ term per = Rate_new TQ PQ (q_amount TQ term) (q_unit TQ term) (q_amount PQ per) (q_unit PQ per).
Proof. exact @rate_from_qty_vals_accessors. Qed.

Theorem C13_reciprocal : forall (am : Amount) (TQ PQ : QBase am) (r : rate am),
  Rate_reciprocal TQ PQ r = Rate_new PQ TQ (rt_per_unit_multiple r) (rt_per_unit r) (rt_term_amount r) (rt_term_unit r) /\
  Rate_reciprocal PQ TQ (Rate_reciprocal TQ PQ r) = r.
Proof. intros am TQ PQ r. exact (conj (rate_reciprocal_swaps TQ PQ r) (rate_reciprocal_involutive TQ PQ r)). Qed.

(** rate * value and value * rate are the same term:
    term amount * ((value / (1 per-unit)) / per multiple) in the term unit *)
Theorem C13_rate_mul : forall (am : Amount) (TQ : QBase am) (PQ : QFull am) (r : rate am) (q : Qt PQ),
  Rate_mul TQ PQ r q = rate_mul_nf TQ PQ r q /\ tmpl_Mul_Qty_Rate PQ TQ q r = rate_mul_nf TQ PQ r q.
Proof. exact @rate_mul_kernel. Qed.

(** value / rate: per multiple * ((value / (1 term-unit)) / term amount) in the per unit *)
Theorem C13_qty_div_rate : forall (am : Amount) (TQ : QFull am) (PQ : QBase am) (q : Qt TQ) (r : rate am),
  tmpl_Div_Qty_Rate TQ PQ q r = qty_div_rate_nf TQ PQ q r.
Proof. exact @qty_div_rate_kernel. Qed.

(** division by the reciprocal agrees with multiplication by the rate — exactly *)
Theorem C13_div_by_reciprocal : forall (am : Amount) (TQ : QBase am) (PQ : QFull am) (r : rate am) (q : Qt PQ),
  tmpl_Div_Qty_Rate PQ TQ q (Rate_reciprocal TQ PQ r) = Rate_mul TQ PQ r q.
Proof. exact @div_by_reciprocal_is_mul. Qed.

Theorem C13_result_units : forall (am : Amount),
  (forall (TQ : QBase am), QLaws TQ -> forall (PQ : QFull am) r q y,
     In (rt_term_unit r) (u_iter TQ) -> Rate_mul TQ PQ r q = Ok y -> q_unit TQ y = rt_term_unit r) /\
  (forall (TQ : QFull am) (PQ : QBase am), QLaws PQ -> forall q r y,
     In (rt_per_unit r) (u_iter PQ) -> tmpl_Div_Qty_Rate TQ PQ q r = Ok y -> q_unit PQ y = rt_per_unit r).
Proof. intros am. exact (conj (@rate_mul_unit am) (@qty_div_rate_unit am)). Qed.

Print Assumptions C13_accessors.
Print Assumptions C13_from_qty_vals.
Print Assumptions C13_reciprocal.
Print Assumptions C13_rate_mul.
Print Assumptions C13_qty_div_rate.
Print Assumptions C13_div_by_reciprocal.
Print Assumptions C13_result_units.
