(* Props/C06.v — property C06: dimensional type safety of quantity arithmetic.
   Only statements; every proof is `exact <lemma>`.  rustc's verdict on each
   program is OBSERVED by the correspondence run (cargo check), not proved. *)
From QV Require Import Rt.Prelude Macro.Defs Macro.Impls Gen.Prefixes Gen.Catalogue Proofs.Instances Proofs.DerivedCat Spec.Dimensions Proofs.C06.

(** all 15 x 15 x 6 programs over the 14 catalogue types and the bare amount:
    an operator application has an impl - with exactly this result type - iff
    the specification written from the declared derivations says it is
    meaningful *)
Theorem C06_type_safety : type_safe = true /\ List.length all_programs = 1350.
Proof. exact (conj type_safety n_programs). Qed.

Theorem C06_rejected_iff_meaningless : forall o l r, In l main_types -> In r main_types ->
  typechecks o l r = None <-> meaningful o l r = None.
Proof. exact type_safety_forall. Qed.

(** never two impls for one (trait, Self, Rhs): the look-up is a function *)
Theorem C06_coherent : coherent = true.
Proof. exact coherence. Qed.

(** every accepted program is dimensionally sound against Spec/Dimensions.v:
    + - == < relate equal dimensions, * adds and / subtracts exponent vectors *)
Theorem C06_dimensionally_sound : dimensionally_sound = true.
Proof. exact dimensional_soundness. Qed.

(** the operators every derivation generates are exactly the model's, for every
    definition of the tree (main, astronomical, synthetic) - shared with C04 *)
Theorem C06_operator_instances : forallb derived_rows_ok all_entries = true /\ forallb derivation_operands_ok all_entries = true.
Proof. exact (conj all_derived_rows_ok all_derivation_operands_ok). Qed.

Print Assumptions C06_type_safety.
Print Assumptions C06_rejected_iff_meaningless.
Print Assumptions C06_coherent.
Print Assumptions C06_dimensionally_sound.
Print Assumptions C06_operator_instances.
