(* Props/C14.v — property C14: table-driven conversions apply the declared
   affine map.  Only statements; every proof is `exact <lemma>`. *)
From Coq Require Import QArith.
From QV Require Import Rt.Prelude Rt.Amount Rt.Quantity Macro.Defs Gen.Prefixes Gen.Catalogue Gen.TempTable
  Gen.Kernels Macro.Inst Macro.TempInst Proofs.Laws Proofs.Instances Spec.Temperature Proofs.C14.
Local Close Scope Q_scope.

(** Every instance, every table (any rows: duplicates, gaps), every amount:
    unchanged value for the present unit, otherwise amount * factor + offset of
    the FIRST entry for the (from, to) pair, nothing if there is none. *)
Theorem C14_convert_table : forall (am : Amount) (S : QBase am) (rows : list (nat * nat * A am * A am)) (q : Qt S) (to : nat),
  ConversionTable_convert S rows q to =
  if Nat.eqb (q_unit S q) to then Ok (Some q)
  else match first_row rows (q_unit S q) to with
       | Some kc => affine S q to kc
       | None => Ok None
       end.
Proof. exact @convert_table_spec. Qed.

Theorem C14_first_entry : forall (am : Amount) (rows : list (nat * nat * A am * A am)) f t,
  (forall k c, first_row rows f t = Some (k, c) ->
     exists r1 r2, rows = r1 ++ (f, t, k, c) :: r2 /\
                   forall f' t' k' c', In (f', t', k', c') r1 -> ~ (f' = f /\ t' = t)) /\
  (first_row rows f t = None <-> forall f' t' k c, In (f', t', k, c) rows -> ~ (f' = f /\ t' = t)).
Proof. intros am rows f t. exact (conj (first_row_some rows f t) (first_row_none rows f t)). Qed.

(** The predefined temperature table: 6 rows for the 6 ordered pairs of
    distinct units, one each; every factor and offset literal equals the
    physical formula's constant exactly where that terminates within 18
    decimals and is within 0.5e-18 of it otherwise. *)
Theorem C14_temperature_table : temperature_table_ok = true /\
  map name_of_unit [0;1;2] = [n_celsius; n_fahrenheit; n_kelvin].
Proof. exact (conj temperature_table_checked temperature_units). Qed.

Theorem C14_temperature_total : forall (am : Amount) i j, i < 3 -> j < 3 -> i <> j ->
  exists kc, first_row (temp_rows am) i j = Some kc.
Proof. exact temperature_total. Qed.

Print Assumptions C14_convert_table.
Print Assumptions C14_first_entry.
Print Assumptions C14_temperature_table.
Print Assumptions C14_temperature_total.
