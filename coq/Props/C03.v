(* Props/C03.v — property C03: sum, difference and ratio of like quantities
   honour units.  Only statements; every proof is `exact <lemma>`.  Structural
   half; the magnitude bounds per back-end are in Props/C03acc.v. *)
From QV Require Import Rt.Prelude Rt.Amount Rt.Quantity Macro.Defs Gen.Prefixes Gen.Catalogue
  Gen.Kernels Macro.Inst Proofs.Laws Proofs.Instances Proofs.C03.

(** a + b, a - b, a / b: the left operand is used as it is, the right operand
    is converted to the left operand's unit, operand order preserved, result of
    + and - expressed in the left operand's unit *)
Theorem C03_kernels : forall (am : Amount) (S : QBase am) (x y : Qt S),
  HasRefUnit_add S x y = bind (rhs_in_lhs_unit S x y) (fun b => bind (a_add am (q_amount S x) b) (fun s => Ok (q_new S s (q_unit S x)))) /\
  HasRefUnit_sub S x y = bind (rhs_in_lhs_unit S x y) (fun b => bind (a_sub am (q_amount S x) b) (fun s => Ok (q_new S s (q_unit S x)))) /\
  HasRefUnit_div S x y = bind (rhs_in_lhs_unit S x y) (fun b => a_div am (q_amount S x) b).
Proof. exact @c03_kernels. Qed.

Theorem C03_rhs_conversion : forall (am : Amount) (S : QBase am) (x y : Qt S),
  (q_unit S y = q_unit S x -> rhs_in_lhs_unit S x y = Ok (q_amount S y)) /\
  (q_unit S y <> q_unit S x -> rhs_in_lhs_unit S x y =
     bind (a_div am (u_scale S (q_unit S y)) (u_scale S (q_unit S x))) (fun r => a_mul am r (q_amount S y))).
Proof. exact @c03_rhs_conversion. Qed.

(** equal units: exactly the amount type's own + - / on the two amounts *)
Theorem C03_same_unit : forall (am : Amount) (S : QBase am) (x y : Qt S), q_unit S x = q_unit S y ->
  HasRefUnit_add S x y = bind (a_add am (q_amount S x) (q_amount S y)) (fun s => Ok (q_new S s (q_unit S x))) /\
  HasRefUnit_sub S x y = bind (a_sub am (q_amount S x) (q_amount S y)) (fun s => Ok (q_new S s (q_unit S x))) /\
  HasRefUnit_div S x y = a_div am (q_amount S x) (q_amount S y).
Proof. exact @c03_same_unit. Qed.

Theorem C03_result_unit : forall (am : Amount) (S : QBase am), QLaws S -> forall x y r, In (q_unit S x) (u_iter S) ->
  (HasRefUnit_add S x y = Ok r -> q_unit S r = q_unit S x) /\
  (HasRefUnit_sub S x y = Ok r -> q_unit S r = q_unit S x).
Proof. exact @c03_result_unit. Qed.

(** the operators + - / of every type generated on the reference-unit path are these kernels *)
Theorem C03_operators : forall (am : Amount) (g : gen_def SIPrefix), gd_path g = PRef ->
  forall x y : Qt (base_of_gen am g),
  q_add (full_of_gen am g) x y = HasRefUnit_add (base_of_gen am g) x y /\
  q_sub (full_of_gen am g) x y = HasRefUnit_sub (base_of_gen am g) x y /\
  q_div (full_of_gen am g) x y = HasRefUnit_div (base_of_gen am g) x y.
Proof. exact c03_operators. Qed.

Theorem C03_dimensionless : forall (am : Amount) (a b : am),
  q_add (amount_full am) a b = a_add am a b /\ q_sub (amount_full am) a b = a_sub am a b /\
  q_div (amount_full am) a b = a_div am a b.
Proof. exact c03_dimensionless. Qed.

Print Assumptions C03_kernels.
Print Assumptions C03_rhs_conversion.
Print Assumptions C03_same_unit.
Print Assumptions C03_result_unit.
Print Assumptions C03_operators.
Print Assumptions C03_dimensionless.
