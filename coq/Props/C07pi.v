(* Props/C07pi.v — property C07, the parsec family of the astronomical crate
   against its irrational definition 648000/pi au.  Kept apart from Props/C07.v
   because the proof is by Coq-Interval's reflexive interval arithmetic: coqc's
   kernel checks it in seconds with the VM, while the independent checker
   coqchk re-evaluates the reflection without the VM and needs about an hour;
   this file is therefore compiled and audited on every run but is not part of
   the coqchk pass of the thorough tier.  Only statements; proofs are `exact`. *)
From Coq Require Import Reals QArith String.
From QV Require Import Rt.Prelude Rt.Amount Macro.Defs Gen.Prefixes Gen.Catalogue Macro.Inst Amount.F64
  Proofs.C07 Proofs.C07pi.
Local Close Scope Q_scope.
Local Close Scope R_scope.

(** the parsec family against 648000/pi au *)
Theorem C07_parsec_family :
  within_eps pc_q (648000 / PI)%R /\ within_eps kpc_q (648000 * 1000 / PI)%R /\
  within_eps mpc_q (648000 * 1000000 / PI)%R /\ within_eps gpc_q (648000 * 1000000000 / PI)%R.
Proof. exact parsec_family. Qed.

Theorem C07_parsec_scales_are_the_generated_ones :
  pc_q = astro_length_scale_Q (us "Parsec"%string) /\ kpc_q = astro_length_scale_Q (us "Kiloparsec"%string) /\
  mpc_q = astro_length_scale_Q (us "Megaparsec"%string) /\ gpc_q = astro_length_scale_Q (us "Gigaparsec"%string).
Proof. exact pc_q_is_scale. Qed.

Print Assumptions C07_parsec_family.
Print Assumptions C07_parsec_scales_are_the_generated_ones.
