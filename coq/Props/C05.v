(* Props/C05.v — property C05: derived results use the natural or the
   best-fitting unit.  Only statements; every proof is `exact <lemma>`. *)
From QV Require Import Rt.Prelude Rt.Amount Rt.Quantity Macro.Defs Gen.Prefixes Gen.Catalogue
  Gen.Kernels Macro.Inst Amount.F64 Amount.Dec Proofs.Laws Proofs.Instances Proofs.C09 Proofs.Derived Proofs.DerivedCat.

(** the generated product / quotient operators (mixed, squared, number / quantity) are one normal form *)
Theorem C05_templates : forall (am : Amount) (L Rr : QBase am) (R : QFull am),
  (forall x y, tmpl_Mul_Qty_Qty L Rr R x y =
     derived_nf (a_mul am) R (u_scale L (q_unit L x)) (u_scale Rr (q_unit Rr y)) (q_amount L x) (q_amount Rr y)) /\
  (forall x y, tmpl_Mul_Qty_Self_PRef L R x y =
     derived_nf (a_mul am) R (u_scale L (q_unit L x)) (u_scale L (q_unit L y)) (q_amount L x) (q_amount L y)) /\
  (forall x y, tmpl_Div_Qty_Qty L Rr R x y =
     derived_nf (a_div am) R (u_scale L (q_unit L x)) (u_scale Rr (q_unit Rr y)) (q_amount L x) (q_amount Rr y)) /\
  (forall (x : am) y, tmpl_Div_Amnt_Qty Rr R x y =
     derived_nf (a_div am) R (a_one am) (u_scale Rr (q_unit Rr y)) x (q_amount Rr y)).
Proof. intros am L Rr R. exact (conj (mul_qty_qty_nf L Rr R) (conj (mul_qty_self_nf L R) (conj (div_qty_qty_nf L Rr R) (div_amnt_qty_nf Rr R)))). Qed.

(** natural unit: the FIRST unit whose scale equals (in the amount type) the
    combined scale; the amount is exactly the product / quotient of the amounts *)
Theorem C05_natural_unit : forall (am : Amount) (op : am -> am -> res am) (R : QFull am) su sv a b sc w,
  op su sv = Ok sc -> HasRefUnit_unit_from_scale R sc = Some w ->
  derived_nf op R su sv a b = bind (op a b) (fun m => Ok (q_new R m w)) /\
  a_eqb am (u_scale R w) sc = true /\
  exists l1 l2, u_iter R = l1 ++ w :: l2 /\ forall v, In v l1 -> a_eqb am (u_scale R v) sc = false.
Proof. exact @derived_natural_unit. Qed.

(** otherwise the reference-unit magnitude is re-expressed by _fit *)
Theorem C05_fit_path : forall (am : Amount) (op : am -> am -> res am) (R : QFull am) su sv a b sc,
  op su sv = Ok sc -> HasRefUnit_unit_from_scale R sc = None ->
  derived_nf op R su sv a b = bind (op a b) (fun t => bind (a_mul am t sc) (fun m => q_fit R m)) /\
  forall v, In v (u_iter R) -> a_eqb am (u_scale R v) sc = false.
Proof. exact @derived_fit_path. Qed.

(** _fit: amount / scale(w) in unit w, where w is chosen among the eligible units *)
Theorem C05_fit_spec : forall (am : Amount) (S : QBase am) (m : am),
  HasRefUnit__fit S m =
  match fit_unit S m with
  | None => Panic PUnwrapNone
  | Some w => bind (a_div am m (u_scale S w)) (fun x => Ok (q_new S x w))
  end.
Proof. exact @fit_spec. Qed.

(** w is the LAST eligible unit (in iteration order, i.e. the largest, as
    iteration is in scale order: C09) whose scale exceeds the first eligible
    unit's and does not exceed the magnitude - the boundary scale = magnitude
    included -, or the first (smallest) eligible unit if there is none *)
Theorem C05_fit_unit : forall (am : Amount) (S : QBase am) (m : am) w, fit_unit S m = Some w ->
  exists first rest, eligible S = first :: rest /\
    ((w = first /\ forall u, In u rest -> fit_cond S first m u = false) \/
     (exists r1 r2, rest = r1 ++ w :: r2 /\ fit_cond S first m w = true /\ forall u, In u r2 -> fit_cond S first m u = false)).
Proof. exact @fit_unit_spec. Qed.

Theorem C05_fit_total : forall (am : Amount) (S : QBase am),
  In (u_ref_unit S) (u_iter S) -> forall m, exists w, fit_unit S m = Some w /\ In w (eligible S) /\ In w (u_iter S).
Proof.
  intros am S Hin m. exact (match fit_unit_total S Hin m with
                            | ex_intro _ w H => ex_intro _ w (conj H (fit_unit_in_registry S m w H)) end).
Qed.

(** the result of any derived operator carries a unit of the result quantity *)
Theorem C05_result_unit_in_registry : forall (am : Amount) (op : am -> am -> res am) (R : QFull am), QLaws R ->
  forall su sv a b z, (forall m, q_fit R m = HasRefUnit__fit R m) ->
  derived_nf op R su sv a b = Ok z -> In (q_unit R z) (u_iter R).
Proof. exact @derived_result_unit. Qed.

(** every derivation of the current tree, every operator instance it generates,
    both amount types: operands in reference units give the reference unit;
    and for every type the reference unit is iterated (so _fit is total) *)
Theorem C05_ref_in_ref_out :
  forallb (ref_in_ref_out F64) all_entries = true /\ forallb (ref_in_ref_out DEC) dec_entries = true /\
  forall am, forallb (fit_total_ok am) all_entries = true.
Proof. exact (conj ref_in_ref_out_f64 (conj ref_in_ref_out_dec all_fit_total)). Qed.

Print Assumptions C05_templates.
Print Assumptions C05_natural_unit.
Print Assumptions C05_fit_path.
Print Assumptions C05_fit_spec.
Print Assumptions C05_fit_unit.
Print Assumptions C05_fit_total.
Print Assumptions C05_result_unit_in_registry.
Print Assumptions C05_ref_in_ref_out.
