(* Props/Programs.v — whole programs over a quantity type with a reference unit
   refine the abstract specification "a quantity is a physical magnitude"
   (properties C01, C02, C03, C08 composed over arbitrary operation trees).
   Only statements; every proof is `exact <lemma>`. *)
From Coq Require Import QArith Qcanon List.
From QV Require Import Rt.Prelude Rt.Amount Rt.Quantity Macro.Defs Gen.Prefixes Gen.Catalogue Gen.Kernels Macro.Inst
  Proofs.Laws Proofs.Kernel Proofs.C01 Proofs.Programs Proofs.ProgramsCat.
Local Open Scope Qc_scope.

(** Any tree of constructions (a * U, U * a, new), conversions, sums, differences
    and scalings by numbers, run through the kernels translated from the source:
    if it returns, the value carries the unit determined statically (leftmost
    operand / last conversion) and denotes exactly the magnitude of the abstract
    semantics — for every amount type whose arithmetic is exact. *)
Theorem PROG_refines : forall (am : Amount) (E : ExactAmount am) (S : QBase am), QLaws S ->
  forall (p : prog) (x : Qt S), wf S p -> run S p = Ok x ->
  q_unit S x = unit_of p /\ magnitude E S x = sem E S p.
Proof. exact @run_refines. Qed.

(** the observers: ratio, ==, partial ordering of two program results *)
Theorem PROG_ratio : forall (am : Amount) (E : ExactAmount am) (S : QBase am), QLaws S ->
  (forall u, In u (u_iter S) -> sc E S u <> 0) ->
  forall (p q : prog) (x y : Qt S) (r : am), wf S p -> wf S q -> run S p = Ok x -> run S q = Ok y ->
  HasRefUnit_div S x y = Ok r -> sem E S q <> 0 /\ val E r = sem E S p / sem E S q.
Proof. exact @ratio_refines. Qed.

Theorem PROG_eq : forall (am : Amount) (E : ExactAmount am) (S : QBase am), QLaws S ->
  (forall u, In u (u_iter S) -> sc E S u <> 0) ->
  forall (p q : prog) (x y : Qt S) (b : bool), wf S p -> wf S q -> run S p = Ok x -> run S q = Ok y ->
  HasRefUnit_eq S x y = Ok b -> (b = true <-> sem E S p = sem E S q).
Proof. exact @eq_refines. Qed.

Theorem PROG_cmp : forall (am : Amount) (E : ExactAmount am) (S : QBase am), QLaws S ->
  forall (p q : prog) (x y : Qt S) (c : option comparison), wf S p -> wf S q ->
  (forall u, In u (u_iter S) -> 0 < sc E S u) -> run S p = Ok x -> run S q = Ok y ->
  HasRefUnit_partial_cmp S x y = Ok c -> c = Some (sem E S p ?= sem E S q).
Proof. exact @cmp_refines. Qed.

(** the exact rational amount type is such an amount type, every predefined
    quantity with a reference unit (regenerated catalogue, literals read exactly)
    has positive scales, so the refinement holds for every program over it *)
Theorem PROG_exact_instance : ExactAmount QAM.
Proof. exact QAM_exact. Qed.

Theorem PROG_catalogue_scales : forall e, In e ref_entries ->
  forall u, In u (u_iter (base_of_gen QAM (ce_gen e))) -> 0 < sc QAM_exact (base_of_gen QAM (ce_gen e)) u.
Proof. exact catalogue_scales_positive. Qed.

Theorem PROG_catalogue : forall e (p : @prog QAM) x, In e ref_entries ->
  wf (base_of_gen QAM (ce_gen e)) p -> run (base_of_gen QAM (ce_gen e)) p = Ok x ->
  q_unit (base_of_gen QAM (ce_gen e)) x = unit_of p /\
  magnitude QAM_exact (base_of_gen QAM (ce_gen e)) x = sem QAM_exact (base_of_gen QAM (ce_gen e)) p.
Proof. exact catalogue_programs. Qed.

(** not vacuous: ((2.5 in).convert(cm) + cm * 1 - 0.5 * new(10, mm)) / 3 is run by the
    kernels to 137/60 cm, a well-formed program denoting 137/6000 m *)
Theorem PROG_not_vacuous :
  match run LengthQ example_prog with
  | Ok x => Some (this (q_amount LengthQ x), q_unit LengthQ x)
  | Panic _ => None end = Some ((137 # 60)%Q, cm_ix) /\
  wf LengthQ example_prog /\ this (sem QAM_exact LengthQ example_prog) = (137 # 6000)%Q.
Proof. exact example_runs. Qed.

Print Assumptions PROG_refines.
Print Assumptions PROG_ratio.
Print Assumptions PROG_eq.
Print Assumptions PROG_cmp.
Print Assumptions PROG_exact_instance.
Print Assumptions PROG_catalogue_scales.
Print Assumptions PROG_catalogue.
Print Assumptions PROG_not_vacuous.
