(* Props/Literals.v — "the literal's exact value in the amount type" (properties
   C07, C09, C11): what a scale literal becomes in each amount type.
   Binary64: `lit as f64` is the correctly rounded exact decimal value (Flocq's
   rounding of the exact quotient), or an infinity with the literal's sign when
   that overflows.  Decimal: `Dec!` either rejects the literal (for one of eight
   stated reasons) or represents it EXACTLY, with its fractional digits as
   written.  Only statements; every proof is `exact <lemma>`. *)
From Coq Require Import Reals ZArith.
From Coq Require Import Floats.SpecFloat.
From Flocq Require Import Core IEEE754.BinarySingleNaN IEEE754.Binary IEEE754.Bits.
From QV Require Import Rt.Prelude Rt.Fmt Amount.F64 Amount.DecModel Amount.DecAcc Amount.DecLit Proofs.LitF64.
From QV Require Amount.Laws.
Local Notation rnd64 := (round radix2 (SpecFloat.fexp 53 1024) (round_mode mode_NE)).

(** binary64: correctly rounded, sign kept, overflow to the signed infinity *)
Theorem LIT_f64_cases : forall (l : lit) (x : f64), (0 <= l_digits l)%Z -> f64_of_lit l = Some x ->
  Bsign 53 1024 x = l_neg l /\
  ((Rabs (rnd64 (lit_R l)) < bpow radix2 1024 /\ is_finite 53 1024 x = true /\ B2R 53 1024 x = rnd64 (lit_R l)) \/
   (bpow radix2 1024 <= Rabs (rnd64 (lit_R l)) /\ x = B754_infinity 53 1024 (l_neg l)))%R.
Proof. exact f64_of_lit_cases. Qed.

(** ... with a decidable no-overflow test on the literal *)
Theorem LIT_f64_in_range : forall (l : lit) (x : f64), (0 <= l_digits l)%Z -> lit_in_range l = true -> f64_of_lit l = Some x ->
  is_finite 53 1024 x = true /\ B2R 53 1024 x = rnd64 (lit_R l) /\ Bsign 53 1024 x = l_neg l.
Proof. exact f64_of_lit_in_range. Qed.

Theorem LIT_f64_total : forall l : lit, exists x, f64_of_lit l = Some x.
Proof. exact f64_of_lit_total. Qed.

(** decimal: accepted literals are pinned down completely ... *)
Theorem LIT_dec_spec : forall (l : lit) (d : dec), dec_of_lit l = Some d <-> lit_accepted l /\ d = lit_dec l.
Proof. exact dec_of_lit_spec. Qed.

(** ... represented exactly (for fewer than 2^128 as digits; beyond that fpdec's 39-digit overflow test is
    incomplete, see [dec_of_lit_wraps] in Amount/DecLit.v) ... *)
Theorem LIT_dec_exact : forall (l : lit) (d : dec), dec_of_lit l = Some d -> (l_digits l < 2 ^ 128)%Z ->
  (0 <= d_nfd d <= 18)%Z /\ in_i128 (d_coeff d) = true /\
  ((0 <= l_exp l)%Z -> d_nfd d = 0%Z /\ d_coeff d = (lit_sign l * l_digits l * 10 ^ l_exp l)%Z) /\
  ((l_exp l < 0)%Z -> d_coeff d = (lit_sign l * l_digits l)%Z /\
     (d_nfd d = (- l_exp l)%Z \/ (l_digits l = 0%Z /\ l_is_int l = true /\ d_nfd d = 0%Z))).
Proof. exact dec_of_lit_exact. Qed.

Theorem LIT_dec_value : forall (l : lit) (d : dec), dec_of_lit l = Some d -> (l_digits l < 2 ^ 128)%Z ->
  dval d = (IZR (lit_sign l * l_digits l) * (if (0 <=? l_exp l)%Z then IZR (10 ^ l_exp l) else / IZR (10 ^ (- l_exp l))))%R.
Proof. exact dec_of_lit_dval. Qed.

(** ... and rejection happens exactly for the listed reasons *)
Theorem LIT_dec_rejection : forall l : lit, dec_of_lit l = None <-> lit_rejected l.
Proof. exact dec_of_lit_none. Qed.

Print Assumptions LIT_f64_cases.
Print Assumptions LIT_f64_in_range.
Print Assumptions LIT_f64_total.
Print Assumptions LIT_dec_spec.
Print Assumptions LIT_dec_exact.
Print Assumptions LIT_dec_value.
Print Assumptions LIT_dec_rejection.
