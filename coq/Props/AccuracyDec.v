(* Props/AccuracyDec.v — the "up to the rounding of the amount type" and the
   "does not panic while magnitudes are moderate" halves of properties C01,
   C02, C03 and C18 in the decimal configuration (model of fpdec::Decimal,
   Amount/DecModel.v): sums and differences are exact, every rounded
   operation is within half a unit of the 18th fractional digit and exact on
   the 18-digit grid, comparison is the exact comparison of the values, and
   operations return a value while the real magnitudes stay below 10^19.
   Only statements; every proof is `exact <lemma>`. *)
From Coq Require Import Reals ZArith List.
From Flocq Require Import Core.Raux.
From QV Require Import Rt.Prelude Rt.Amount Rt.Quantity Gen.Prefixes Gen.Kernels Amount.DecModel Amount.Dec Amount.DecAcc
  Proofs.Laws Proofs.Kernel Proofs.C09 Proofs.Derived Proofs.AccDec Proofs.AccDecExamples Proofs.AccInverse.
From QV Require Amount.Laws Proofs.C14.
Local Open Scope R_scope.

(** per-operation accuracy of the amount type *)
Theorem DEC_operations :
  (forall x y z, Amount.Laws.dec_ok x -> Amount.Laws.dec_ok y -> dec_add x y = Ok z -> Amount.Laws.dec_ok z /\ dval z = dval x + dval y) /\
  (forall x y z, Amount.Laws.dec_ok x -> Amount.Laws.dec_ok y -> dec_sub x y = Ok z -> Amount.Laws.dec_ok z /\ dval z = dval x - dval y) /\
  (forall x y z, Amount.Laws.dec_ok x -> Amount.Laws.dec_ok y -> dec_mul x y = Ok z ->
     Amount.Laws.dec_ok z /\ Rabs (dval z - dval x * dval y) <= half_ulp18 /\ ((d_nfd x + d_nfd y <= 18)%Z -> dval z = dval x * dval y)) /\
  (forall x y z, Amount.Laws.dec_ok x -> Amount.Laws.dec_ok y -> dec_div x y = Ok z ->
     Amount.Laws.dec_ok z /\ dval y <> 0 /\ Rabs (dval z - dval x / dval y) <= half_ulp18) /\
  (forall x y z, Amount.Laws.dec_ok x -> Amount.Laws.dec_ok y -> dec_mul x y = Ok z -> grid18 (dval x * dval y) -> dval z = dval x * dval y) /\
  (forall x y z, Amount.Laws.dec_ok x -> Amount.Laws.dec_ok y -> dec_div x y = Ok z -> grid18 (dval x / dval y) -> dval z = dval x / dval y).
Proof. exact (conj dec_add_exact (conj dec_sub_exact (conj dec_mul_acc (conj dec_div_acc (conj dec_mul_exact_on_grid dec_div_exact_on_grid))))). Qed.

(** == and the ordering of the amount type are those of the values *)
Theorem DEC_comparison :
  (forall x y, dec_wf x -> dec_wf y -> dec_cmp x y = Rcompare (dval x) (dval y)) /\
  (forall x y, dec_wf x -> dec_wf y -> (dec_eqb x y = true <-> dval x = dval y)).
Proof. exact (conj dec_cmp_exact dec_eqb_exact). Qed.

(** the operations return a value while the real results stay below 10^19 *)
Theorem DEC_totality :
  (forall x y, Amount.Laws.dec_ok x -> Amount.Laws.dec_ok y -> Rabs (dval x) < big -> Rabs (dval y) < big -> exists z, dec_add x y = Ok z) /\
  (forall x y, Amount.Laws.dec_ok x -> Amount.Laws.dec_ok y -> Rabs (dval x) < big -> Rabs (dval y) < big -> exists z, dec_sub x y = Ok z) /\
  (forall x y, Amount.Laws.dec_ok x -> Amount.Laws.dec_ok y -> Rabs (dval x * dval y) < big -> exists z, dec_mul x y = Ok z) /\
  (forall x y, Amount.Laws.dec_ok x -> Amount.Laws.dec_ok y -> (Z.abs (d_coeff x) <= i128_max)%Z -> (Z.abs (d_coeff y) <= i128_max)%Z ->
     dval y <> 0 -> Rabs (dval x / dval y) < big -> exists z, dec_div x y = Ok z).
Proof. exact (conj dec_add_total_R (conj dec_sub_total_R (conj dec_mul_total_R dec_div_total_R))). Qed.

(** C01 (decimal): the magnitude moves by at most h (|a| + 1) |sv|, h = 5 * 10^-19 *)
Theorem DEC_C01_convert : forall (S : QBase DEC), QLaws S -> forall (q : Qt S) (v : nat) (q' : Qt S),
  q_unit S q <> v -> In v (u_iter S) ->
  Amount.Laws.dec_ok (q_amount S q) -> Amount.Laws.dec_ok (u_scale S (q_unit S q)) -> Amount.Laws.dec_ok (u_scale S v) ->
  HasRefUnit_convert S q v = Ok q' ->
  q_unit S q' = v /\
  Rabs (dval (q_amount S q') * dval (u_scale S v) - dmag S q) <= half_ulp18 * (Rabs (dval (q_amount S q)) + 1) * Rabs (dval (u_scale S v)).
Proof. exact dec_convert_bound. Qed.

(** ... and exactly preserved when the ratio of the scales and the converted amount have at most 18 fractional digits *)
Theorem DEC_C01_convert_exact : forall (S : QBase DEC), QLaws S -> forall (q : Qt S) (v : nat) (q' : Qt S),
  q_unit S q <> v -> In v (u_iter S) ->
  Amount.Laws.dec_ok (q_amount S q) -> Amount.Laws.dec_ok (u_scale S (q_unit S q)) -> Amount.Laws.dec_ok (u_scale S v) ->
  HasRefUnit_convert S q v = Ok q' ->
  grid18 (dval (u_scale S (q_unit S q)) / dval (u_scale S v)) ->
  grid18 (dval (u_scale S (q_unit S q)) / dval (u_scale S v) * dval (q_amount S q)) ->
  dval (q_amount S q') * dval (u_scale S v) = dmag S q.
Proof. exact dec_convert_exact. Qed.

(** C18 (decimal), conversion: no panic while the ratio of the scales and the converted amount stay below 10^19 *)
Theorem DEC_C18_convert_total : forall (S : QBase DEC) (q : Qt S) (v : nat),
  q_unit S q <> v -> Amount.Laws.dec_ok (q_amount S q) -> dfit (u_scale S (q_unit S q)) -> dfit (u_scale S v) -> dval (u_scale S v) <> 0 ->
  Rabs (dval (u_scale S (q_unit S q)) / dval (u_scale S v)) < big ->
  (Rabs (dval (u_scale S (q_unit S q)) / dval (u_scale S v)) + half_ulp18) * Rabs (dval (q_amount S q)) < big ->
  exists q', HasRefUnit_convert S q v = Ok q'.
Proof. exact dec_convert_total. Qed.

(** the premises of the three conversion theorems are met by 2.5 in -> cm, and the model computes 6.350 cm *)
Theorem DEC_C01_not_vacuous :
  (q_unit LengthD q_exampled <> cm_ixd /\ In cm_ixd (u_iter LengthD) /\
   Amount.Laws.dec_ok (q_amount LengthD q_exampled) /\ dfit (u_scale LengthD (q_unit LengthD q_exampled)) /\ dfit (u_scale LengthD cm_ixd) /\
   dval (u_scale LengthD cm_ixd) <> 0 /\
   grid18 (dval (u_scale LengthD (q_unit LengthD q_exampled)) / dval (u_scale LengthD cm_ixd)) /\
   grid18 (dval (u_scale LengthD (q_unit LengthD q_exampled)) / dval (u_scale LengthD cm_ixd) * dval (q_amount LengthD q_exampled)) /\
   Rabs (dval (u_scale LengthD (q_unit LengthD q_exampled)) / dval (u_scale LengthD cm_ixd)) < big /\
   (Rabs (dval (u_scale LengthD (q_unit LengthD q_exampled)) / dval (u_scale LengthD cm_ixd)) + half_ulp18) * Rabs (dval (q_amount LengthD q_exampled)) < big) /\
  (exists q', HasRefUnit_convert LengthD q_exampled cm_ixd = Ok q' /\ q_amount LengthD q' = mkdec 6350 3 /\ q_unit LengthD q' = cm_ixd).
Proof. exact (conj dec_convert_premises_hold exampled_computes). Qed.

(** C03 (decimal): a + b, a - b across units; the sum itself is exact, the only error is the conversion of b *)
Theorem DEC_C03_add : forall (S : QBase DEC), QLaws S -> forall (x y r : Qt S),
  q_unit S y <> q_unit S x -> In (q_unit S x) (u_iter S) ->
  Amount.Laws.dec_ok (q_amount S x) -> Amount.Laws.dec_ok (q_amount S y) -> Amount.Laws.dec_ok (u_scale S (q_unit S y)) -> Amount.Laws.dec_ok (u_scale S (q_unit S x)) ->
  HasRefUnit_add S x y = Ok r ->
  q_unit S r = q_unit S x /\
  Rabs (dval (q_amount S r) * dval (u_scale S (q_unit S x)) - (dmag S x + dmag S y)) <= half_ulp18 * (Rabs (dval (q_amount S y)) + 1) * Rabs (dval (u_scale S (q_unit S x))).
Proof. exact dec_add_magnitude. Qed.

Theorem DEC_C03_sub : forall (S : QBase DEC), QLaws S -> forall (x y r : Qt S),
  q_unit S y <> q_unit S x -> In (q_unit S x) (u_iter S) ->
  Amount.Laws.dec_ok (q_amount S x) -> Amount.Laws.dec_ok (q_amount S y) -> Amount.Laws.dec_ok (u_scale S (q_unit S y)) -> Amount.Laws.dec_ok (u_scale S (q_unit S x)) ->
  HasRefUnit_sub S x y = Ok r ->
  q_unit S r = q_unit S x /\
  Rabs (dval (q_amount S r) * dval (u_scale S (q_unit S x)) - (dmag S x - dmag S y)) <= half_ulp18 * (Rabs (dval (q_amount S y)) + 1) * Rabs (dval (u_scale S (q_unit S x))).
Proof. exact dec_sub_magnitude. Qed.

Theorem DEC_C03_div : forall (S : QBase DEC) (x y : Qt S) (r : dec),
  q_unit S y <> q_unit S x ->
  Amount.Laws.dec_ok (q_amount S x) -> Amount.Laws.dec_ok (q_amount S y) -> Amount.Laws.dec_ok (u_scale S (q_unit S y)) -> Amount.Laws.dec_ok (u_scale S (q_unit S x)) ->
  HasRefUnit_div S x y = Ok r ->
  exists b', HasRefUnit_equiv_amount S y (q_unit S x) = Ok b' /\ dval b' <> 0 /\
    Rabs (dval b' * dval (u_scale S (q_unit S x)) - dmag S y) <= half_ulp18 * (Rabs (dval (q_amount S y)) + 1) * Rabs (dval (u_scale S (q_unit S x))) /\
    Rabs (dval r - dval (q_amount S x) / dval b') <= half_ulp18.
Proof. exact dec_div_magnitude. Qed.

(** C02 (decimal): across units the verdict is the exact order of the magnitudes whenever
    they are more than 10^-18 apart, and always when they have at most 18 fractional digits;
    it never panics while the magnitudes stay below 10^19 - 1 *)
Theorem DEC_C02_order : forall (S : QBase DEC) (x y : Qt S),
  q_unit S x <> q_unit S y ->
  Amount.Laws.dec_ok (q_amount S x) -> Amount.Laws.dec_ok (q_amount S y) -> Amount.Laws.dec_ok (u_scale S (q_unit S x)) -> Amount.Laws.dec_ok (u_scale S (q_unit S y)) ->
  Rabs (dmag S x) < big - 1 -> Rabs (dmag S y) < big - 1 ->
  exists c, HasRefUnit_partial_cmp S x y = Ok (Some c) /\
    (dmag S x + 2 * half_ulp18 < dmag S y -> c = Lt) /\ (dmag S y + 2 * half_ulp18 < dmag S x -> c = Gt) /\
    (grid18 (dmag S x) -> grid18 (dmag S y) -> c = Rcompare (dmag S x) (dmag S y)).
Proof. exact dec_cmp_separated. Qed.

(** C04 / C05 (decimal): derived product / quotient through the natural unit ... *)
Theorem DEC_C04_natural_unit : forall (op : dec -> dec -> res dec) (rop : R -> R -> R) (okr : dec -> Prop), dop_rel op rop okr ->
  forall (R0 : QFull DEC), QLaws R0 -> (forall w, In w (u_iter R0) -> dfit (u_scale R0 w)) ->
  forall su sv a b : dec, Amount.Laws.dec_ok su -> Amount.Laws.dec_ok sv -> Amount.Laws.dec_ok a -> Amount.Laws.dec_ok b ->
  forall (z : Qt R0) (sc : dec) (w : nat), op su sv = Ok sc -> (Z.abs (d_coeff sc) <= i128_max)%Z ->
  HasRefUnit_unit_from_scale R0 sc = Some w ->
  @derived_nf DEC op R0 su sv a b = Ok z ->
  q_unit R0 z = w /\ In w (u_iter R0) /\
  Rabs (dmag_o R0 z - rop (dval a) (dval b) * rop (dval su) (dval sv)) <= half_ulp18 * (Rabs (dval sc) + Rabs (rop (dval a) (dval b))) /\
  (grid18 (rop (dval a) (dval b)) -> grid18 (rop (dval su) (dval sv)) -> dmag_o R0 z = rop (dval a) (dval b) * rop (dval su) (dval sv)).
Proof. exact dec_derived_natural. Qed.

(** ... and through _fit when no unit has the combined scale *)
Theorem DEC_C04_fit_path : forall (op : dec -> dec -> res dec) (rop : R -> R -> R) (okr : dec -> Prop), dop_rel op rop okr ->
  forall (R0 : QFull DEC), QLaws R0 -> (forall m, q_fit R0 m = HasRefUnit__fit R0 m) -> (forall w, In w (u_iter R0) -> dfit (u_scale R0 w)) ->
  forall su sv a b : dec, Amount.Laws.dec_ok su -> Amount.Laws.dec_ok sv -> Amount.Laws.dec_ok a -> Amount.Laws.dec_ok b ->
  forall (z : Qt R0) (sc : dec), op su sv = Ok sc -> HasRefUnit_unit_from_scale R0 sc = None ->
  @derived_nf DEC op R0 su sv a b = Ok z ->
  In (q_unit R0 z) (u_iter R0) /\
  exists m, fit_unit R0 m = Some (q_unit R0 z) /\
    Rabs (dval m - rop (dval a) (dval b) * rop (dval su) (dval sv)) <= half_ulp18 * (Rabs (dval sc) + Rabs (rop (dval a) (dval b)) + 1) /\
    Rabs (dmag_o R0 z - dval m) <= half_ulp18 * Rabs (dval (u_scale R0 (q_unit R0 z))).
Proof. exact dec_derived_fit. Qed.

(** the two instances: * and / of the decimal type *)
Theorem DEC_C04_operations : dop_rel dec_mul Rmult (fun _ => True) /\ dop_rel dec_div Rdiv (fun y => dval y <> 0).
Proof. exact (conj mul_dop_rel div_dop_rel). Qed.

(** C14 (decimal): a table conversion is amount * factor + offset within 5e-19, exact when the product needs no rounding *)
Theorem DEC_C14_affine : forall (S : QBase DEC), QLaws S -> forall (q : Qt S) (to : nat) (k c : dec) (z : Qt S),
  In to (u_iter S) -> Amount.Laws.dec_ok (q_amount S q) -> Amount.Laws.dec_ok k -> Amount.Laws.dec_ok c ->
  Proofs.C14.affine S q to (k, c) = Ok (Some z) ->
  q_unit S z = to /\ Rabs (dval (q_amount S z) - (dval (q_amount S q) * dval k + dval c)) <= half_ulp18 /\
  ((d_nfd (q_amount S q) + d_nfd k <= 18)%Z -> dval (q_amount S z) = dval (q_amount S q) * dval k + dval c).
Proof. exact dec_affine_value. Qed.

(** C04 (decimal), multiply then divide on the natural-unit path: the original magnitude within an explicit bound *)
Theorem DEC_C04_mul_then_div : forall (R0 L0 : QFull DEC), QLaws R0 -> QLaws L0 ->
  (forall w, In w (u_iter R0) -> dfit (u_scale R0 w)) -> (forall w, In w (u_iter L0) -> dfit (u_scale L0 w)) ->
  forall su sv a b : dec, Amount.Laws.dec_ok su -> Amount.Laws.dec_ok sv -> Amount.Laws.dec_ok a -> Amount.Laws.dec_ok b ->
  forall (z : Qt R0) (z' : Qt L0) (sc sc2 : dec) (w u' : nat),
  dec_mul su sv = Ok sc -> (Z.abs (d_coeff sc) <= i128_max)%Z -> HasRefUnit_unit_from_scale R0 sc = Some w ->
  @derived_nf DEC dec_mul R0 su sv a b = Ok z ->
  dec_div (u_scale R0 w) sv = Ok sc2 -> (Z.abs (d_coeff sc2) <= i128_max)%Z -> HasRefUnit_unit_from_scale L0 sc2 = Some u' ->
  @derived_nf DEC dec_div L0 (u_scale R0 (q_unit R0 z)) sv (q_amount R0 z) b = Ok z' ->
  q_unit R0 z = w /\ q_unit L0 z' = u' /\ dval sv <> 0 /\ dval b <> 0 /\
  Rabs (dmag_o L0 z' - dval a * dval su) <=
    half_ulp18 * (Rabs (dval sc2) + Rabs (dval (q_amount R0 z) / dval b)) +
    half_ulp18 * (Rabs (dval sc) + Rabs (dval a * dval b)) / (Rabs (dval b) * Rabs (dval sv)).
Proof. exact mul_then_div_natural_dec. Qed.

Print Assumptions DEC_operations.
Print Assumptions DEC_comparison.
Print Assumptions DEC_totality.
Print Assumptions DEC_C01_convert.
Print Assumptions DEC_C01_convert_exact.
Print Assumptions DEC_C18_convert_total.
Print Assumptions DEC_C01_not_vacuous.
Print Assumptions DEC_C03_add.
Print Assumptions DEC_C03_sub.
Print Assumptions DEC_C03_div.
Print Assumptions DEC_C02_order.
Print Assumptions DEC_C04_natural_unit.
Print Assumptions DEC_C04_fit_path.
Print Assumptions DEC_C04_operations.
Print Assumptions DEC_C14_affine.
Print Assumptions DEC_C04_mul_then_div.
