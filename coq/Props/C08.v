(* Props/C08.v — property C08: construction and scaling by numbers are exact
   and unit-preserving.  Only statements; every proof is `exact <lemma>`. *)
From QV Require Import Rt.Prelude Rt.Amount Rt.Quantity Macro.Defs Gen.Prefixes Gen.Catalogue
  Gen.Kernels Macro.Inst Proofs.Laws Proofs.Instances Proofs.C08.

(** Constructor and accessors, for every amount back-end, every generated
    definition (single-unit types have exactly one unit), every unit, every
    amount whatsoever. *)
Theorem C08_constructor_accessors : forall (am : Amount) (g : gen_def SIPrefix), single_ok g = true ->
  forall (a : am) u, In u (u_iter (base_of_gen am g)) ->
    q_amount (base_of_gen am g) (q_new (base_of_gen am g) a u) = a /\
    q_unit (base_of_gen am g) (q_new (base_of_gen am g) a u) = u.
Proof. exact ctor_accessors. Qed.

Theorem C08_amount_times_unit : forall (am : Amount) (S : QBase am) (a : am) u,
  tmpl_Mul_Amnt_Unit S a u = q_new S a u /\ tmpl_Mul_Unit_Amnt S u a = q_new S a u.
Proof. exact amount_unit_ctor. Qed.

(** k * q, q * k, q / k *)
Theorem C08_scalar_kernels : forall (am : Amount) (S : QBase am) (k : am) (q : Qt S),
  tmpl_Mul_Amnt_Qty S k q = bind (a_mul am k (q_amount S q)) (fun m => Ok (q_new S m (q_unit S q))) /\
  tmpl_Mul_Qty_Amnt S q k = bind (a_mul am (q_amount S q) k) (fun m => Ok (q_new S m (q_unit S q))) /\
  tmpl_Div_Qty_Amnt S q k = bind (a_div am (q_amount S q) k) (fun m => Ok (q_new S m (q_unit S q))).
Proof. exact scalar_kernels. Qed.

Theorem C08_scalar_results : forall (am : Amount) (S : QBase am), QLaws S -> forall (k : am) (q r : Qt S),
  In (q_unit S q) (u_iter S) ->
  (tmpl_Mul_Amnt_Qty S k q = Ok r -> q_unit S r = q_unit S q /\ a_mul am k (q_amount S q) = Ok (q_amount S r)) /\
  (tmpl_Mul_Qty_Amnt S q k = Ok r -> q_unit S r = q_unit S q /\ a_mul am (q_amount S q) k = Ok (q_amount S r)) /\
  (tmpl_Div_Qty_Amnt S q k = Ok r -> q_unit S r = q_unit S q /\ a_div am (q_amount S q) k = Ok (q_amount S r)).
Proof. exact scalar_results. Qed.

(** the dimensionless amount type as a quantity *)
Theorem C08_dimensionless : forall am : Amount,
  u_iter (amount_base am) = [0] /\
  u_symbol (amount_base am) 0 = [] /\
  u_scale (amount_base am) 0 = a_one am /\
  u_ref_unit (amount_base am) = 0 /\
  (forall (a : am) u, q_new (amount_base am) a u = a) /\
  (forall a : am, q_amount (amount_base am) a = a /\ q_unit (amount_base am) a = 0) /\
  (forall (a : am) u, MulOneForAmountT_mul a u = a /\ MulAmountTForOne_mul u a = a) /\
  (forall a : am, HasRefUnitAmountT__fit a = a).
Proof. exact dimensionless. Qed.

(** every definition of the current tree (main crate, astronomical crate,
    synthetic): the hypotheses hold, the instance laws hold, and its operators
    are wired to the templates the theorems above speak about *)
Theorem C08_catalogue : forall e, In e all_entries ->
  single_ok (ce_gen e) = true /\ wiring_ok (ce_gen e) = true /\
  forall am, QLaws (base_of_gen am (ce_gen e)).
Proof. intros e H. exact (conj (catalogue_single_ok e H) (conj (catalogue_wiring e H) (fun am => entry_laws am e H))). Qed.

Print Assumptions C08_constructor_accessors.
Print Assumptions C08_amount_times_unit.
Print Assumptions C08_scalar_kernels.
Print Assumptions C08_scalar_results.
Print Assumptions C08_dimensionless.
Print Assumptions C08_catalogue.
