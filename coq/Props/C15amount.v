(* Props/C15amount.v — property C15, the amount text: what the two amount
   types' Display produces parses back to the stored amount, and under a
   precision it is the correctly rounded value.
   Decimal: theorems about the model of fpdec's Display / from_str.
   Binary64: theorems about the model of core's flt2dec / dec2flt; the shortest
   digit search is used only after its result passed the read-back test, and the
   complete-expansion fallback is proved to read back (Flocq: the correctly
   rounded quotient of an exactly representable value is that value), so every
   non-NaN double parses back identically; under a precision the digits are the
   half-even rounding of m * 2^e * 10^p.
   Only statements; every proof is `exact <lemma>`. *)
From Coq Require Import ZArith List Bool.
From Coq Require Import Floats.SpecFloat.
From Flocq Require Import IEEE754.BinarySingleNaN IEEE754.Binary IEEE754.Bits.
From QV Require Import Rt.Prelude Rt.Amount Rt.Quantity Rt.Fmt Gen.Prefixes Gen.Kernels Gen.KernelsFmt
  Amount.DecModel Amount.Dec Amount.DecStr Proofs.C15 Proofs.C15dec Proofs.C15f64 Proofs.C15f64exp Proofs.C15f64prec.
Import ListNotations.
Local Open Scope Z_scope.

(** * decimal *)
(** the digits printed are those of [dec_shown prec d]: |d| brought to the displayed precision *)
Theorem C15_dec_text : forall (prec : option N) (d : dec), 0 <= d_nfd d <= 18 ->
  snd (dec_display_parts prec d) = dec_to_string (dec_shown prec d) /\
  fst (dec_display_parts prec d) = (d_coeff d >=? 0).
Proof. exact dec_display_text. Qed.

Theorem C15_dec_precision : forall (prec : option N) (d : dec), d_nfd (dec_shown prec d) = disp_prec prec d.
Proof. exact dec_shown_nfd. Qed.

(** fewer digits than stored: rounded to the nearest, error at most half a unit of the last shown digit *)
Theorem C15_dec_rounded : forall (prec : option N) (d : dec),
  0 <= d_nfd d <= 18 -> Z.abs (d_coeff d) <= i128_max ->
  disp_prec prec d < d_nfd d ->
  let k := d_nfd d - disp_prec prec d in
  2 * Z.abs (d_coeff (dec_shown prec d) * ten_pow k - Z.abs (d_coeff d)) <= ten_pow k.
Proof. exact dec_shown_rounded_abs. Qed.

(** at least as many digits as stored: the exact value, padded with zeros *)
Theorem C15_dec_exact : forall (prec : option N) (d : dec),
  d_nfd d <= disp_prec prec d ->
  d_coeff (dec_shown prec d) = Z.abs (d_coeff d) * ten_pow (disp_prec prec d - d_nfd d).
Proof. exact dec_shown_exact. Qed.

(** the text parses back to the shown value; without precision (and with the sign) to the stored amount itself *)
Theorem C15_dec_parse_back : forall (prec : option N) (d : dec),
  0 <= d_nfd d <= 18 -> Z.abs (d_coeff (dec_shown prec d)) <= i128_max ->
  dec_from_str (snd (dec_display_parts prec d)) = Some (dec_shown prec d).
Proof. exact dec_display_parse_back. Qed.

Theorem C15_dec_plain_parse_back : forall d : dec,
  0 <= d_nfd d <= 18 -> Z.abs (d_coeff d) <= i128_max ->
  dec_from_str ((if d_coeff d >=? 0 then [] else [ch_minus]) ++ snd (dec_display_parts None d)) = Some d.
Proof. exact dec_display_plain_parse_back. Qed.

(** a quantity without format flags: "<amount as String::from prints it> <symbol>", and the amount part parses back *)
Theorem C15_dec_quantity_plain : forall (S : QBase DEC) (q : Qt S),
  u_symbol S (q_unit S q) <> [] -> 0 <= d_nfd (q_amount S q) <= 18 ->
  Z.abs (d_coeff (q_amount S q)) <= i128_max ->
  exists text, Quantity_fmt S q fspec_default = text ++ [32%N] ++ u_symbol S (q_unit S q) /\
               dec_from_str text = Some (q_amount S q).
Proof. exact qty_fmt_dec_plain_parse_back. Qed.

(** ... and with any flags: the rounded amount, a space, the symbol, padded as a whole *)
Theorem C15_dec_quantity_fmt : forall (S : QBase DEC) (q : Qt S) (form : fspec),
  u_symbol S (q_unit S q) <> [] -> 0 <= d_nfd (q_amount S q) <= 18 ->
  Z.abs (d_coeff (q_amount S q)) <= i128_max ->
  Quantity_fmt S q form =
  fmt_pad_integral form (d_coeff (q_amount S q) >=? 0)
    (dec_to_string (dec_shown (f_prec form) (q_amount S q)) ++ [32%N] ++ u_symbol S (q_unit S q)).
Proof. exact qty_fmt_dec_spec. Qed.

(** * binary64 *)
(** the shortest-search result is used only when it reads back as the same double *)
Theorem C15_f64_digits_checked : forall m e ds k,
  shortest_search m e = Some (ds, k) -> roundtrip_ok m e ds k = true -> digits_ok m e = true.
Proof. exact digits_ok_shortest. Qed.

(** ... and the complete expansion used otherwise reads back too, so the test always succeeds *)
Theorem C15_f64_digits_always : forall (m : positive) (e : Z), SpecFloat.bounded 53 1024 m e = true -> digits_ok m e = true.
Proof. exact digits_ok_always. Qed.

(** every double that is not a NaN - zeros with their sign, infinities, subnormals - parses back identically *)
Theorem C15_f64_parse_back : forall x : binary64, is_nan 53 1024 x = false ->
  f64_parse (f64_to_text fspec_default x) = Some x.
Proof. exact f64_display_parses_back_all. Qed.

(** under a precision p the printed digits are those of [f64_scaled m e p]: exact for e >= 0, else m * 10^p / 2^-e rounded half-to-even *)
Theorem C15_f64_precision_rounding : forall (m : positive) (e : Z) (p : N),
  (0 <= e -> f64_scaled m e p = Zpos m * 2 ^ e * 10 ^ Z.of_N p) /\
  (e < 0 -> 2 * Z.abs (f64_scaled m e p * 2 ^ (- e) - Zpos m * 10 ^ Z.of_N p) <= 2 ^ (- e)).
Proof. exact f64_scaled_rounded. Qed.

(** ... laid out with exactly p fractional digits: the text reads back as the double nearest to scaled / 10^p *)
Theorem C15_f64_precision_text : forall (s : bool) (m : positive) (e : Z) (H : SpecFloat.bounded 53 1024 m e = true) (p : N),
  f64_scaled m e p <> 0 ->
  parse_unsigned_sf (f64_body (Some p) (B754_finite 53 1024 s m e H)) = Some (round_ratio (f64_scaled m e p) (10 ^ Z.of_N p)).
Proof. exact f64_precision_text. Qed.

Theorem C15_f64_precision_zero : forall (s : bool) (m : positive) (e : Z) (H : SpecFloat.bounded 53 1024 m e = true) (p : N),
  f64_scaled m e p = 0 -> f64_body (Some p) (B754_finite 53 1024 s m e H) = zero_text p.
Proof. exact f64_precision_text_zero. Qed.

Theorem C15_f64_nan : forall s pl H, exists x,
  f64_parse (f64_to_text fspec_default (B754_nan 53 1024 s pl H)) = Some x /\ is_nan 53 1024 x = true.
Proof. exact f64_display_nan. Qed.

Print Assumptions C15_dec_text.
Print Assumptions C15_dec_precision.
Print Assumptions C15_dec_rounded.
Print Assumptions C15_dec_exact.
Print Assumptions C15_dec_parse_back.
Print Assumptions C15_dec_plain_parse_back.
Print Assumptions C15_dec_quantity_plain.
Print Assumptions C15_dec_quantity_fmt.
Print Assumptions C15_f64_digits_checked.
Print Assumptions C15_f64_digits_always.
Print Assumptions C15_f64_parse_back.
Print Assumptions C15_f64_precision_rounding.
Print Assumptions C15_f64_precision_text.
Print Assumptions C15_f64_precision_zero.
Print Assumptions C15_f64_nan.
