(* Props/C16.v — property C16: SI prefix table is a consistent bijection.
   Only statements; every proof is `exact <lemma>`. *)
From QV Require Import Rt.Prelude Gen.Prefixes Spec.SIBrochure Proofs.PrefixModel Proofs.C16.

(** The table (exponent, name, abbreviation per prefix, in iteration order) is
    the SI brochure's table from quecto to quetta. *)
Theorem C16_table_is_brochure :
  map prefix_row prefix_iter = map Some si_brochure.
Proof. exact prefix_table_is_brochure. Qed.

(** Look-up by exponent, for every value of the exponent type i8. *)
Theorem C16_from_exp : forall e p, (-128 <= e <= 127)%Z ->
  (prefix_from_exp e = Some p <-> prefix_exp p = e).
Proof. exact from_exp_spec. Qed.

(** Look-up by abbreviation, for every string. *)
Theorem C16_from_abbr : forall s p,
  prefix_from_abbr s = Some p <-> prefix_abbr p = Some s.
Proof. exact from_abbr_spec. Qed.

Theorem C16_from_abbr_none : forall s,
  (forall p, prefix_abbr p <> Some s) -> prefix_from_abbr s = None.
Proof. exact from_abbr_none. Qed.

(** One-to-one in each of the three columns. *)
Theorem C16_bijection : forall p q,
  (prefix_exp p = prefix_exp q -> p = q) /\
  (prefix_abbr p = prefix_abbr q -> p = q) /\
  (prefix_name p = prefix_name q -> p = q).
Proof. intros p q. exact (conj (prefix_exp_inj p q) (conj (prefix_abbr_inj p q) (prefix_name_inj p q))). Qed.

(** Iteration yields every prefix exactly once, in increasing exponent order. *)
Theorem C16_iteration :
  (forall p, In p prefix_iter) /\ NoDup prefix_iter /\ length prefix_iter = 25 /\
  strictly_increasing (map prefix_exp prefix_iter) = true.
Proof. exact (conj prefix_iter_complete (conj prefix_iter_nodup (conj prefix_iter_length prefix_iter_sorted))). Qed.

Print Assumptions C16_table_is_brochure.
Print Assumptions C16_from_exp.
Print Assumptions C16_from_abbr.
Print Assumptions C16_from_abbr_none.
Print Assumptions C16_bijection.
Print Assumptions C16_iteration.
