(* Props/C10.v — property C10: quantities without a reference unit never mix
   units silently.  Only statements; every proof is `exact <lemma>`. *)
From QV Require Import Rt.Prelude Rt.Amount Rt.Quantity Macro.Defs Gen.Prefixes Gen.Catalogue
  Gen.Kernels Macro.Inst Proofs.Laws Proofs.Instances Proofs.C10.

(** == holds only for same unit and equal amounts *)
Theorem C10_eq : forall (am : Amount) (g : gen_def SIPrefix), gd_path g = PNoRef ->
  forall x y : Qt (base_of_gen am g),
  q_eq (full_of_gen am g) x y =
  Ok (Nat.eqb (q_unit (base_of_gen am g) x) (q_unit (base_of_gen am g) y)
      && a_eqb am (q_amount (base_of_gen am g) x) (q_amount (base_of_gen am g) y)).
Proof. exact noref_eq_spec. Qed.

(** values in different units are unordered; same unit: the amounts' order *)
Theorem C10_partial_cmp : forall (am : Amount) (g : gen_def SIPrefix), gd_path g = PNoRef ->
  forall x y : Qt (base_of_gen am g),
  q_partial_cmp (full_of_gen am g) x y =
  Ok (if Nat.eqb (q_unit (base_of_gen am g) x) (q_unit (base_of_gen am g) y)
      then a_cmp am (q_amount (base_of_gen am g) x) (q_amount (base_of_gen am g) y) else None).
Proof. exact noref_cmp_spec. Qed.

(** + - / on different units panic (the documented panic), whatever the amounts *)
Theorem C10_mixed_units_panic : forall (am : Amount) (g : gen_def SIPrefix), gd_path g = PNoRef ->
  forall x y : Qt (base_of_gen am g), q_unit (base_of_gen am g) x <> q_unit (base_of_gen am g) y ->
  q_add (full_of_gen am g) x y = Panic PUnitMismatch /\
  q_sub (full_of_gen am g) x y = Panic PUnitMismatch /\
  q_div (full_of_gen am g) x y = Panic PUnitMismatch.
Proof. exact noref_arith_diff. Qed.

(** with equal units: exactly the amount type's own operation, unit kept *)
Theorem C10_same_unit : forall (am : Amount) (g : gen_def SIPrefix), gd_path g = PNoRef ->
  forall x y : Qt (base_of_gen am g), q_unit (base_of_gen am g) x = q_unit (base_of_gen am g) y ->
  q_add (full_of_gen am g) x y =
    bind (a_add am (q_amount (base_of_gen am g) x) (q_amount (base_of_gen am g) y))
         (fun s => Ok (q_new (base_of_gen am g) s (q_unit (base_of_gen am g) x))) /\
  q_sub (full_of_gen am g) x y =
    bind (a_sub am (q_amount (base_of_gen am g) x) (q_amount (base_of_gen am g) y))
         (fun s => Ok (q_new (base_of_gen am g) s (q_unit (base_of_gen am g) x))) /\
  q_div (full_of_gen am g) x y = a_div am (q_amount (base_of_gen am g) x) (q_amount (base_of_gen am g) y).
Proof. exact noref_arith_same. Qed.

(** a single-unit type always reports its unit and does plain amount arithmetic *)
Theorem C10_single_unit : forall (am : Amount) (g : gen_def SIPrefix), gd_path g = PSingle ->
  (forall x : Qt (base_of_gen am g), q_unit (base_of_gen am g) x = 0) /\
  (forall (a : am) u v, q_new (base_of_gen am g) a u = q_new (base_of_gen am g) a v) /\
  (forall x y : Qt (base_of_gen am g),
    q_add (full_of_gen am g) x y =
      bind (a_add am (q_amount (base_of_gen am g) x) (q_amount (base_of_gen am g) y)) (fun s => Ok (q_new (base_of_gen am g) s 0)) /\
    q_sub (full_of_gen am g) x y =
      bind (a_sub am (q_amount (base_of_gen am g) x) (q_amount (base_of_gen am g) y)) (fun s => Ok (q_new (base_of_gen am g) s 0)) /\
    q_div (full_of_gen am g) x y = a_div am (q_amount (base_of_gen am g) x) (q_amount (base_of_gen am g) y)).
Proof. intros am g Hp. exact (conj (single_unit_const am g Hp) (conj (single_new_any_unit am g Hp) (single_arith am g Hp))). Qed.

(** the current tree: which definitions take which path (as declared), the
    operators of each are wired to the templates, and both kinds occur *)
Theorem C10_catalogue :
  forallb path_matches_decl all_entries = true /\
  forallb (fun e => wiring_ok (ce_gen e)) all_entries = true /\
  existsb (fun e => match gd_path (ce_gen e) with PNoRef => true | _ => false end) noref_entries = true /\
  existsb (fun e => match gd_path (ce_gen e) with PSingle => true | _ => false end) noref_entries = true.
Proof. exact (conj all_path_matches_decl (conj all_wiring_ok noref_entries_nonempty)). Qed.

Print Assumptions C10_eq.
Print Assumptions C10_partial_cmp.
Print Assumptions C10_mixed_units_panic.
Print Assumptions C10_same_unit.
Print Assumptions C10_single_unit.
Print Assumptions C10_catalogue.
