(* Props/C04.v — property C04: derived products and quotients preserve the
   physical value.  Only statements; every proof is `exact <lemma>`.  Structural
   half (which operators exist with which result type, what each computes,
   borrowed forms); magnitude bounds per back-end: Props/C04acc.v. *)
From QV Require Import Rt.Prelude Rt.Amount Rt.Quantity Macro.Defs Macro.Impls Gen.Prefixes Gen.Catalogue
  Gen.Kernels Macro.Inst Amount.F64 Amount.Dec Proofs.Laws Proofs.Instances Proofs.C09 Proofs.Derived Proofs.DerivedCat.

(** what every generated product / quotient computes: with sc = the combined
    unit scale, (a op b) in the natural unit if one exists, else _fit((a op b) * sc) *)
Theorem C04_templates : forall (am : Amount) (L Rr : QBase am) (R : QFull am),
  (forall x y, tmpl_Mul_Qty_Qty L Rr R x y =
     derived_nf (a_mul am) R (u_scale L (q_unit L x)) (u_scale Rr (q_unit Rr y)) (q_amount L x) (q_amount Rr y)) /\
  (forall x y, tmpl_Mul_Qty_Self_PRef L R x y =
     derived_nf (a_mul am) R (u_scale L (q_unit L x)) (u_scale L (q_unit L y)) (q_amount L x) (q_amount L y)) /\
  (forall x y, tmpl_Div_Qty_Qty L Rr R x y =
     derived_nf (a_div am) R (u_scale L (q_unit L x)) (u_scale Rr (q_unit Rr y)) (q_amount L x) (q_amount Rr y)) /\
  (forall (x : am) y, tmpl_Div_Amnt_Qty Rr R x y =
     derived_nf (a_div am) R (a_one am) (u_scale Rr (q_unit Rr y)) x (q_amount Rr y)).
Proof. intros am L Rr R. exact (conj (mul_qty_qty_nf L Rr R) (conj (mul_qty_self_nf L R) (conj (div_qty_qty_nf L Rr R) (div_amnt_qty_nf Rr R)))). Qed.

(** borrowed operands: each forwarder returns exactly what the owned form returns *)
Theorem C04_borrowed_forms : forall (X Y Z : Type) (owned : X -> Y -> Z) x y,
  tmpl_Mul_refQty_Qty owned x y = owned x y /\ tmpl_Mul_Qty_refQty owned x y = owned x y /\
  tmpl_Mul_refQty_refQty owned x y = owned x y /\
  tmpl_Div_refQty_Qty owned x y = owned x y /\ tmpl_Div_Qty_refQty owned x y = owned x y /\
  tmpl_Div_refQty_refQty owned x y = owned x y /\
  tmpl_Mul_refQty_Same owned x y = owned x y /\ tmpl_Mul_Qty_refSelf owned x y = owned x y /\
  tmpl_Mul_refQty_Self owned x y = owned x y /\
  tmpl_Div_refAmnt_Qty owned x y = owned x y /\ tmpl_Div_Amnt_refQty owned x y = owned x y /\
  tmpl_Div_refAmnt_refQty owned x y = owned x y.
Proof. exact @borrowed_forms. Qed.

(** which operators exist: for every definition of the tree the generated impl
    table holds exactly the rows of the model — for R = A x B: A*B, B*A, R/A,
    R/B (A*A, R/A when A = B); for R = A / B: A/B, R*B, B*R, A/R — each in
    owned form with the declared result type plus its three borrowed forms, each
    an instance of a translated template; all three types of every derivation
    have a reference unit.  The main crate: 9 derivations, 34 owned instances. *)
Theorem C04_operator_instances :
  forallb derived_rows_ok all_entries = true /\
  forallb derivation_operands_ok all_entries = true /\
  List.length (List.filter (fun e => match derivation_of e with DMul _ _ | DDiv _ _ => true | _ => false end) catalogue_main) = 9 /\
  n_owned_derived catalogue_main = 34.
Proof. exact (conj all_derived_rows_ok (conj all_derivation_operands_ok main_crate_derivations)). Qed.

Print Assumptions C04_templates.
Print Assumptions C04_borrowed_forms.
Print Assumptions C04_operator_instances.
