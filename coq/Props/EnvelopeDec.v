(* Props/EnvelopeDec.v — property C18, decimal configuration, for the kernels of
   quantities with a reference unit: inside the envelope the property names
   (every naturally arising magnitude between 1e-15 and 1e17 — the ratio of the
   two unit scales, the operands, the right operand expressed in the left
   operand's unit, the quotient — divisors non-zero) conversion, + - /, the
   comparisons across units and the derived products / quotients (natural-unit
   and _fit path) and the rate operations return a value.  Over the model of fpdec::Decimal.
   Only statements; every proof is `exact <lemma>`. *)
From Coq Require Import Reals ZArith List.
From QV Require Import Rt.Prelude Rt.Amount Rt.Quantity Gen.Prefixes Gen.Kernels Amount.DecModel Amount.Dec Amount.DecAcc
  Proofs.Laws Proofs.Kernel Proofs.C09 Proofs.Derived Proofs.AccDec Proofs.EnvDec Proofs.AccCatalogue Proofs.EnvCatalogue.
From QV Require Import Macro.Defs Gen.Catalogue Macro.Inst.
Import ListNotations.
From QV Require Amount.Laws.
Local Open Scope R_scope.

Theorem DEC_C18_envelope_convert : forall (S : QBase DEC), QLaws S -> forall (q : Qt S) (v : nat),
  q_unit S q <> v -> Amount.Laws.dec_ok (q_amount S q) -> dfit (u_scale S (q_unit S q)) -> dfit (u_scale S v) ->
  in_env (dval (u_scale S (q_unit S q)) / dval (u_scale S v)) ->
  Rabs (dval (q_amount S q)) <= env_hi ->
  Rabs (dval (q_amount S q) * (dval (u_scale S (q_unit S q)) / dval (u_scale S v))) <= env_hi ->
  exists q', HasRefUnit_convert S q v = Ok q'.
Proof. exact env_convert. Qed.

Theorem DEC_C18_envelope_add_sub : forall (S : QBase DEC) (x y : Qt S),
  q_unit S y <> q_unit S x -> Amount.Laws.dec_ok (q_amount S x) -> Amount.Laws.dec_ok (q_amount S y) ->
  dfit (u_scale S (q_unit S y)) -> dfit (u_scale S (q_unit S x)) ->
  in_env (dval (u_scale S (q_unit S y)) / dval (u_scale S (q_unit S x))) ->
  Rabs (dval (q_amount S x)) <= env_hi -> Rabs (dval (q_amount S y)) <= env_hi ->
  Rabs (dval (q_amount S y) * (dval (u_scale S (q_unit S y)) / dval (u_scale S (q_unit S x)))) <= env_hi ->
  (exists r, HasRefUnit_add S x y = Ok r) /\ (exists r, HasRefUnit_sub S x y = Ok r).
Proof. exact env_add_sub. Qed.

Theorem DEC_C18_envelope_div : forall (S : QBase DEC) (x y : Qt S),
  q_unit S y <> q_unit S x -> Amount.Laws.dec_ok (q_amount S x) -> Amount.Laws.dec_ok (q_amount S y) ->
  dfit (u_scale S (q_unit S y)) -> dfit (u_scale S (q_unit S x)) ->
  in_env (dval (u_scale S (q_unit S y)) / dval (u_scale S (q_unit S x))) ->
  Rabs (dval (q_amount S x)) <= env_hi -> Rabs (dval (q_amount S y)) <= env_hi ->
  in_env (dval (q_amount S y) * (dval (u_scale S (q_unit S y)) / dval (u_scale S (q_unit S x)))) ->
  Rabs (dval (q_amount S x) / (dval (q_amount S y) * (dval (u_scale S (q_unit S y)) / dval (u_scale S (q_unit S x))))) <= env_hi ->
  exists r, HasRefUnit_div S x y = Ok r.
Proof. exact env_div. Qed.

Theorem DEC_C18_envelope_cmp : forall (S : QBase DEC) (x y : Qt S),
  q_unit S x <> q_unit S y -> Amount.Laws.dec_ok (q_amount S x) -> Amount.Laws.dec_ok (q_amount S y) ->
  Amount.Laws.dec_ok (u_scale S (q_unit S x)) -> Amount.Laws.dec_ok (u_scale S (q_unit S y)) ->
  Rabs (dmag S x) <= env_hi -> Rabs (dmag S y) <= env_hi ->
  exists c, HasRefUnit_partial_cmp S x y = Ok (Some c) /\ HasRefUnit_eq S x y = Ok (match c with Eq => true | _ => false end).
Proof. exact env_cmp. Qed.

(** derived products and quotients (both paths: natural unit and _fit), for any operation of the decimal
    type that is accurate ([dop_rel]) and total below 1e19 ([dop_total]) - which * and / are *)
Theorem DEC_C18_envelope_derived : forall (op : dec -> dec -> res dec) (rop : R -> R -> R) (okr : dec -> Prop),
  dop_rel op rop okr -> dop_total op rop okr ->
  forall (R0 : QFull DEC), (forall m, q_fit R0 m = HasRefUnit__fit R0 m) -> In (u_ref_unit R0) (u_iter R0) ->
  forall su sv a b : dec, dfit su -> dfit sv -> dfit a -> dfit b -> okr sv -> okr b ->
  Rabs (rop (dval su) (dval sv)) <= env_hi -> Rabs (rop (dval a) (dval b)) <= env_hi ->
  Rabs (rop (dval a) (dval b) * rop (dval su) (dval sv)) <= env_hi ->
  (forall w, In w (u_iter R0) ->
     dfit (u_scale R0 w) /\ env_lo <= Rabs (dval (u_scale R0 w)) /\
     Rabs (rop (dval a) (dval b) * rop (dval su) (dval sv) / dval (u_scale R0 w)) <= env_hi) ->
  exists z, @derived_nf DEC op R0 su sv a b = Ok z.
Proof. exact env_derived. Qed.

Theorem DEC_C18_envelope_operations :
  dop_total dec_mul Rmult (fun _ => True) /\ dop_total dec_div Rdiv (fun y => dval y <> 0).
Proof. exact (conj mul_dop_total div_dop_total). Qed.

(** rate operations: after the ratio value / (1 unit) - a cross-unit division, see DEC_C18_envelope_div - one division and one multiplication *)
Theorem DEC_C18_envelope_rate_mul : forall (TQ : QBase DEC) (PQ : QFull DEC) (r : rate DEC) (q : Qt PQ) (x1 : dec),
  q_div PQ q (q_new PQ (a_one DEC) (rt_per_unit r)) = Ok x1 ->
  dfit x1 -> dfit (rt_per_unit_multiple r) -> Amount.Laws.dec_ok (rt_term_amount r) -> dval (rt_per_unit_multiple r) <> 0 ->
  Rabs (dval x1 / dval (rt_per_unit_multiple r)) <= env_hi -> Rabs (dval (rt_term_amount r)) <= env_hi ->
  Rabs (dval (rt_term_amount r) * (dval x1 / dval (rt_per_unit_multiple r))) <= env_hi ->
  exists y, Rate_mul TQ PQ r q = Ok y /\ tmpl_Mul_Qty_Rate PQ TQ q r = Ok y.
Proof. exact env_rate_mul. Qed.

Theorem DEC_C18_envelope_qty_div_rate : forall (TQ : QFull DEC) (PQ : QBase DEC) (q : Qt TQ) (r : rate DEC) (x1 : dec),
  q_div TQ q (q_new TQ (a_one DEC) (rt_term_unit r)) = Ok x1 ->
  dfit x1 -> dfit (rt_term_amount r) -> Amount.Laws.dec_ok (rt_per_unit_multiple r) -> dval (rt_term_amount r) <> 0 ->
  Rabs (dval x1 / dval (rt_term_amount r)) <= env_hi -> Rabs (dval (rt_per_unit_multiple r)) <= env_hi ->
  Rabs (dval (rt_per_unit_multiple r) * (dval x1 / dval (rt_term_amount r))) <= env_hi ->
  exists y, tmpl_Div_Qty_Rate TQ PQ q r = Ok y.
Proof. exact env_qty_div_rate. Qed.

(** the catalogue (main crate): every decimal unit scale fits the type and is non-zero; every ratio of two unit
    scales of one quantity lies in the envelope - for all quantities but Volume (mm^3 : km^3 = 1e-18) *)
Theorem DEC_C18_catalogue_scales : forall (e : cat_entry SIPrefix) (u : nat),
  In e catalogue_main -> gd_path (ce_gen e) = PRef ->
  let S := base_of_gen DEC (ce_gen e) in
  In u (u_iter S) -> dfit (u_scale S u) /\ dval (u_scale S u) <> 0.
Proof. exact catalogue_dec_scales. Qed.

Theorem DEC_C18_catalogue_ratios :
  map (fun e => dec_ratios_ok (ce_gen e)) catalogue_main =
  [true; true; true; true; true; true; true; true; true; true; true; true; true; false] /\
  nth_error catalogue_main 13 = Some cat_Volume.
Proof. exact catalogue_dec_ratios_ok. Qed.

(** hence, for these quantities, conversion and + - / inside the envelope return a value: premises on the amounts only *)
Theorem DEC_C18_catalogue_convert : forall (e : cat_entry SIPrefix),
  In e catalogue_main -> gd_path (ce_gen e) = PRef -> dec_ratios_ok (ce_gen e) = true ->
  let S := base_of_gen DEC (ce_gen e) in
  forall (q : Qt S) (v : nat), q_unit S q <> v -> In v (u_iter S) -> In (q_unit S q) (u_iter S) ->
  Amount.Laws.dec_ok (q_amount S q) -> Rabs (dval (q_amount S q)) <= env_hi ->
  Rabs (dval (q_amount S q) * (dval (u_scale S (q_unit S q)) / dval (u_scale S v))) <= env_hi ->
  exists q', HasRefUnit_convert S q v = Ok q'.
Proof. exact catalogue_env_convert. Qed.

Theorem DEC_C18_catalogue_arith : forall (e : cat_entry SIPrefix),
  In e catalogue_main -> gd_path (ce_gen e) = PRef -> dec_ratios_ok (ce_gen e) = true ->
  let S := base_of_gen DEC (ce_gen e) in
  forall (x y : Qt S), q_unit S y <> q_unit S x -> In (q_unit S x) (u_iter S) -> In (q_unit S y) (u_iter S) ->
  Amount.Laws.dec_ok (q_amount S x) -> Amount.Laws.dec_ok (q_amount S y) ->
  Rabs (dval (q_amount S x)) <= env_hi -> Rabs (dval (q_amount S y)) <= env_hi ->
  Rabs (dval (q_amount S y) * (dval (u_scale S (q_unit S y)) / dval (u_scale S (q_unit S x)))) <= env_hi ->
  (exists r, HasRefUnit_add S x y = Ok r) /\ (exists r, HasRefUnit_sub S x y = Ok r) /\
  (env_lo <= Rabs (dval (q_amount S y) * (dval (u_scale S (q_unit S y)) / dval (u_scale S (q_unit S x)))) ->
   Rabs (dval (q_amount S x) / (dval (q_amount S y) * (dval (u_scale S (q_unit S y)) / dval (u_scale S (q_unit S x))))) <= env_hi ->
   exists r, HasRefUnit_div S x y = Ok r).
Proof. exact catalogue_env_arith. Qed.

(** the envelope's constants *)
Theorem DEC_C18_envelope_constants : env_lo = / 1000000000000000 /\ env_hi = 100000000000000000 /\
  (forall r, in_env r <-> env_lo <= Rabs r <= env_hi).
Proof. exact (conj eq_refl (conj eq_refl (fun r => conj (fun H => H) (fun H => H)))). Qed.

Print Assumptions DEC_C18_envelope_convert.
Print Assumptions DEC_C18_envelope_add_sub.
Print Assumptions DEC_C18_envelope_div.
Print Assumptions DEC_C18_envelope_cmp.
Print Assumptions DEC_C18_envelope_derived.
Print Assumptions DEC_C18_envelope_operations.
Print Assumptions DEC_C18_envelope_rate_mul.
Print Assumptions DEC_C18_envelope_qty_div_rate.
Print Assumptions DEC_C18_catalogue_scales.
Print Assumptions DEC_C18_catalogue_ratios.
Print Assumptions DEC_C18_catalogue_convert.
Print Assumptions DEC_C18_catalogue_arith.
Print Assumptions DEC_C18_envelope_constants.
