(* Props/C02.v — property C02: cross-unit comparison is physically correct and
   order-independent.  Only statements; every proof is `exact <lemma>`. *)
From QV Require Import Rt.Prelude Rt.Amount Rt.Quantity Macro.Defs Gen.Prefixes Gen.Catalogue
  Gen.Kernels Macro.Inst Amount.F64 Amount.DecModel Amount.Dec Amount.Laws Proofs.Laws Proofs.Kernel Proofs.Instances Proofs.C09 Proofs.C02.

(** equal units: the amount type's own comparison of the two amounts *)
Theorem C02_same_unit : forall (am : Amount) (S : QBase am) x y, q_unit S x = q_unit S y ->
  HasRefUnit_eq S x y = Ok (a_eqb am (q_amount S x) (q_amount S y)) /\
  HasRefUnit_partial_cmp S x y = Ok (a_cmp am (q_amount S x) (q_amount S y)).
Proof. exact @c02_same_unit. Qed.

(** different units: the two reference-unit magnitudes amount * scale are compared *)
Theorem C02_diff_unit : forall (am : Amount) (S : QBase am) x y, q_unit S x <> q_unit S y ->
  HasRefUnit_eq S x y = bind (ref_magnitude S x) (fun mx => bind (ref_magnitude S y) (fun my => Ok (a_eqb am mx my))) /\
  HasRefUnit_partial_cmp S x y = bind (ref_magnitude S x) (fun mx => bind (ref_magnitude S y) (fun my => Ok (a_cmp am mx my))).
Proof. exact @c02_diff_unit. Qed.

(** order independence, for every amount type obeying the order laws, every
    instance, every unit pair, every pair of (well-formed) amounts *)
Theorem C02_eq_symmetric : forall (am : Amount) (S : QBase am) (ok : am -> Prop), CmpLaws am ok ->
  forall x y b, operand_ok S ok x -> operand_ok S ok y ->
  HasRefUnit_eq S x y = Ok b -> HasRefUnit_eq S y x = Ok b.
Proof. exact @c02_eq_sym. Qed.

Theorem C02_cmp_antisymmetric : forall (am : Amount) (S : QBase am) (ok : am -> Prop), CmpLaws am ok ->
  forall x y c, operand_ok S ok x -> operand_ok S ok y ->
  HasRefUnit_partial_cmp S x y = Ok c -> HasRefUnit_partial_cmp S y x = Ok (option_map CompOpp c).
Proof. exact @c02_cmp_antisym. Qed.

Theorem C02_equal_iff_eq : forall (am : Amount) (S : QBase am) (ok : am -> Prop), CmpLaws am ok ->
  forall x y c b, operand_ok S ok x -> operand_ok S ok y ->
  HasRefUnit_partial_cmp S x y = Ok c -> HasRefUnit_eq S x y = Ok b -> (c = Some Eq <-> b = true).
Proof. exact @c02_equal_iff_eq. Qed.

Theorem C02_panic_symmetric : forall (am : Amount) (S : QBase am) x y, q_unit S x <> q_unit S y ->
  is_ok (HasRefUnit_eq S x y) = is_ok (HasRefUnit_eq S y x) /\
  is_ok (HasRefUnit_partial_cmp S x y) = is_ok (HasRefUnit_partial_cmp S y x).
Proof. exact @c02_panic_sym. Qed.

(** a < b iff b > a, a <= b iff b >= a (core's derived operators) *)
Theorem C02_derived_relations : forall c : option comparison,
  let r := option_map CompOpp c in
  (match c with Some Lt => true | _ => false end = match r with Some Gt => true | _ => false end) /\
  (match c with Some Lt | Some Eq => true | _ => false end = match r with Some Gt | Some Eq => true | _ => false end) /\
  (match c with Some Gt => true | _ => false end = match r with Some Lt => true | _ => false end) /\
  (match c with Some Gt | Some Eq => true | _ => false end = match r with Some Lt | Some Eq => true | _ => false end).
Proof. exact opp_relations. Qed.

(** the two amount types obey the laws: binary64 for ALL values (NaN included),
    the decimal type for all values with 0..18 fractional digits *)
Theorem C02_amount_laws : CmpLaws F64 (fun _ => True) /\ CmpLaws DEC dec_ok.
Proof. exact (conj f64_laws dec_laws). Qed.

(** the generated == / partial_cmp of every reference-unit type are these kernels;
    every scale of the tree is a well-formed decimal *)
Theorem C02_operators : forall (am : Amount) (g : gen_def SIPrefix), gd_path g = PRef ->
  forall x y : Qt (base_of_gen am g),
  q_eq (full_of_gen am g) x y = HasRefUnit_eq (base_of_gen am g) x y /\
  q_partial_cmp (full_of_gen am g) x y = HasRefUnit_partial_cmp (base_of_gen am g) x y.
Proof. exact c02_operators. Qed.

Theorem C02_decimal_scales_wellformed : forallb dec_scales_ok dec_entries = true.
Proof. exact all_dec_scales_ok. Qed.

Print Assumptions C02_same_unit.
Print Assumptions C02_diff_unit.
Print Assumptions C02_eq_symmetric.
Print Assumptions C02_cmp_antisymmetric.
Print Assumptions C02_equal_iff_eq.
Print Assumptions C02_panic_symmetric.
Print Assumptions C02_derived_relations.
Print Assumptions C02_amount_laws.
Print Assumptions C02_operators.
Print Assumptions C02_decimal_scales_wellformed.
