(* Props/C09.v — property C09: the unit registry is complete, ordered and
   invertible.  Only statements; every proof is `exact <lemma>`. *)
From QV Require Import Rt.Prelude Rt.Amount Rt.Quantity Macro.Defs Macro.Casing Gen.Prefixes Gen.Catalogue
  Gen.Kernels Macro.Inst Amount.F64 Amount.Dec Macro.Analyze Proofs.Laws Proofs.Instances Proofs.C09.

(** Look-up by symbol — every instance, EVERY string: the first unit in
    iteration order having that symbol, nothing if there is none; the quantity-
    level look-up is the same function. *)
Theorem C09_from_symbol : forall (am : Amount) (S : QBase am) s,
  first_with (fun u => ustr_eqb (u_symbol S u) s) (u_iter S) (Unit_from_symbol S s) /\
  Quantity_unit_from_symbol S s = Unit_from_symbol S s.
Proof. exact @c09_from_symbol. Qed.

(** Look-up by scale — every instance, EVERY amount (equality of the amount type) *)
Theorem C09_from_scale : forall (am : Amount) (S : QBase am) a,
  first_with (fun u => a_eqb am (u_scale S u) a) (u_iter S) (LinearScaledUnit_from_scale S a) /\
  HasRefUnit_unit_from_scale S a = LinearScaledUnit_from_scale S a.
Proof. exact @c09_from_scale. Qed.

Theorem C09_from_symbol_inverts : forall (am : Amount) (S : QBase am),
  (forall v w, In v (u_iter S) -> In w (u_iter S) -> u_symbol S v = u_symbol S w -> v = w) ->
  forall u, In u (u_iter S) -> Unit_from_symbol S (u_symbol S u) = Some u.
Proof. exact @c09_from_symbol_inverts. Qed.

Theorem C09_unknown_symbol : forall (am : Amount) (S : QBase am) s,
  (forall v, In v (u_iter S) -> u_symbol S v <> s) -> Unit_from_symbol S s = None.
Proof. exact @c09_unknown_symbol. Qed.

Theorem C09_ref_unit_and_as_qty : forall (am : Amount) (S : QBase am) u,
  (LinearScaledUnit_is_ref_unit S u = true <-> u = u_ref_unit S) /\
  Unit_as_qty S u = q_new S (a_one am) u.
Proof. intros am S u. exact (conj (c09_is_ref_unit S u) (c09_as_qty S u)). Qed.

(** Every definition of the current tree: the generated registry (iteration
    order, variants, every arm of name/symbol/si_prefix/scale, reference unit,
    one upper-snake constant per variant) is exactly what the model of
    parse+analyze+codegen derives from the declaration as written. *)
Theorem C09_registry_is_declaration : forallb registry_ok all_entries = true.
Proof. exact all_registry_ok. Qed.

(** Iteration order judged directly on the generated tables, in each amount
    type: non-decreasing scale, reference unit of scale one first among the
    units of scale one, other ties in declaration order; name order without
    reference unit. *)
Theorem C09_iteration_order :
  forallb (order_ok F64) all_entries = true /\ forallb (order_ok DEC) dec_entries = true.
Proof. exact (conj order_ok_f64 order_ok_dec). Qed.

Theorem C09_catalogue_symbols_distinct :
  forallb symbols_distinct (catalogue_main ++ catalogue_astro) = true.
Proof. exact catalogue_symbols_distinct. Qed.

Print Assumptions C09_from_symbol.
Print Assumptions C09_from_scale.
Print Assumptions C09_from_symbol_inverts.
Print Assumptions C09_unknown_symbol.
Print Assumptions C09_ref_unit_and_as_qty.
Print Assumptions C09_registry_is_declaration.
Print Assumptions C09_iteration_order.
Print Assumptions C09_catalogue_symbols_distinct.
