(* Props/C12.v — property C12: malformed quantity definitions are rejected at
   compile time.  Only statements; every proof is `exact <lemma>`.  The macro
   front end is MODELLED (Macro/Analyze.v); that an abort makes rustc fail and
   where the error is reported is OBSERVED (correspondence), not proved. *)
From Coq Require Import List.
From QV Require Import Rt.Prelude Macro.Defs Macro.Casing Macro.Impls Macro.Analyze Gen.Prefixes Gen.Catalogue
  Proofs.Instances Proofs.DerivedCat Proofs.C11 Proofs.C12.
Import ListNotations.

Theorem C12_not_a_struct : forall d, rd_kind d <> IStruct -> validate d = false.
Proof. exact reject_not_struct. Qed.
Theorem C12_generic_parameters : forall d, rd_n_generics d <> 0%N -> validate d = false.
Proof. exact reject_generics. Qed.
Theorem C12_struct_fields : forall d, rd_n_fields d <> 0%N -> validate d = false.
Proof. exact reject_fields. Qed.

(** derivation argument other than a product or quotient of two identifiers *)
Theorem C12_bad_derivation : forall d, parse_qargs (rd_qargs d) = DBad -> validate d = false.
Proof. exact reject_bad_derivation. Qed.
Theorem C12_bad_derivation_shapes : forall ts,
  parse_qargs ts = DBad <->
  ts <> [] /\ (forall a b, ts <> [TIdent a; TPunct 42%N; TIdent b]) /\ (forall a b, ts <> [TIdent a; TPunct 47%N; TIdent b]).
Proof. exact bad_derivation_shapes. Qed.

Theorem C12_unit_defects_reject : forall d, analyze d = None -> validate d = false.
Proof. exact reject_analyze. Qed.

(** the defect classes of the unit attributes *)
Theorem C12_no_unit : forall d,
  List.filter (fun a => match ra_kind a with AUnit => true | _ => false end)
    (List.filter (fun a => match ra_kind a with AOtherAttr => false | _ => true end) (rd_attrs d)) = [] -> analyze d = None.
Proof. exact reject_no_unit. Qed.

Theorem C12_two_reference_units : forall d,
  2 <= List.length (List.filter (fun a => match ra_kind a with ARefUnit => true | _ => false end)
         (List.filter (fun a => match ra_kind a with AOtherAttr => false | _ => true end) (rd_attrs d))) -> analyze d = None.
Proof. exact reject_two_ref_units. Qed.

Theorem C12_wrong_number_or_kind_of_arguments : forall d,
  (exists a, In a (List.filter (fun a => match ra_kind a with AUnit => true | _ => false end)
                    (List.filter (fun a => match ra_kind a with AOtherAttr => false | _ => true end) (rd_attrs d)))
             /\ parse_unit_args (ra_args a) = None) -> analyze d = None.
Proof. exact reject_malformed_unit_attr. Qed.

Theorem C12_malformed_reference_unit : forall d ra,
  List.filter (fun a => match ra_kind a with ARefUnit => true | _ => false end)
    (List.filter (fun a => match ra_kind a with AOtherAttr => false | _ => true end) (rd_attrs d)) = [ra] ->
  parse_unit_args (ra_args ra) = None -> analyze d = None.
Proof. exact reject_malformed_ref_unit_attr. Qed.

Theorem C12_scale_on_reference_unit : forall d ra r l,
  List.filter (fun a => match ra_kind a with ARefUnit => true | _ => false end)
    (List.filter (fun a => match ra_kind a with AOtherAttr => false | _ => true end) (rd_attrs d)) = [ra] ->
  parse_unit_args (ra_args ra) = Some r -> ud_scale r = Some l -> analyze d = None.
Proof. exact reject_scale_on_ref_unit. Qed.

Theorem C12_unit_without_scale_beside_reference_unit : forall d ra us,
  List.filter (fun a => match ra_kind a with ARefUnit => true | _ => false end)
    (List.filter (fun a => match ra_kind a with AOtherAttr => false | _ => true end) (rd_attrs d)) = [ra] ->
  parse_all (List.filter (fun a => match ra_kind a with AUnit => true | _ => false end)
    (List.filter (fun a => match ra_kind a with AOtherAttr => false | _ => true end) (rd_attrs d))) = Some us ->
  (exists u, In u us /\ ud_scale u = None) -> analyze d = None.
Proof. exact reject_unit_without_scale. Qed.

Theorem C12_scale_or_prefix_without_reference_unit : forall d us,
  List.filter (fun a => match ra_kind a with ARefUnit => true | _ => false end)
    (List.filter (fun a => match ra_kind a with AOtherAttr => false | _ => true end) (rd_attrs d)) = [] ->
  parse_all (List.filter (fun a => match ra_kind a with AUnit => true | _ => false end)
    (List.filter (fun a => match ra_kind a with AOtherAttr => false | _ => true end) (rd_attrs d))) = Some us ->
  (exists u, In u us /\ (ud_scale u <> None \/ ud_prefix u <> None)) -> analyze d = None.
Proof. exact reject_scale_or_prefix_without_ref. Qed.

(** acceptance is sound (so C11 applies to everything that is accepted) *)
Theorem C12_accept_sound : forall d, validate d = true ->
  rd_kind d = IStruct /\ rd_n_generics d = 0%N /\ rd_n_fields d = 0%N /\
  parse_qargs (rd_qargs d) <> DBad /\ exists a, analyze d = Some a /\ analysed_shape a.
Proof. exact accept_sound. Qed.

(** every definition of the tree is accepted by the model; every owned derived
    operator carries the HasRefUnit bounds on both operands (a derivation
    whose operand lacks a reference unit has an unsatisfied bound) *)
Theorem C12_tree_facts :
  forallb (fun e => validate (ce_raw e)) all_entries = true /\
  forallb (fun e => forallb owned_derived_row_bounded (gd_impls (ce_gen e))) all_entries = true.
Proof. exact (conj all_tree_definitions_accepted derived_rows_bounded). Qed.

Print Assumptions C12_not_a_struct.
Print Assumptions C12_generic_parameters.
Print Assumptions C12_struct_fields.
Print Assumptions C12_bad_derivation.
Print Assumptions C12_bad_derivation_shapes.
Print Assumptions C12_unit_defects_reject.
Print Assumptions C12_no_unit.
Print Assumptions C12_two_reference_units.
Print Assumptions C12_wrong_number_or_kind_of_arguments.
Print Assumptions C12_malformed_reference_unit.
Print Assumptions C12_scale_on_reference_unit.
Print Assumptions C12_unit_without_scale_beside_reference_unit.
Print Assumptions C12_scale_or_prefix_without_reference_unit.
Print Assumptions C12_accept_sound.
Print Assumptions C12_tree_facts.
