(* Props/C19.v — property C19: every feature combination is self-contained.
   Only statements; every proof is `exact <lemma>`.  What rustc/cargo do with a
   configuration is observed by the correspondence run (cargo check per
   configuration), not proved. *)
From QV Require Import Rt.Prelude Macro.Defs Gen.Prefixes Gen.Catalogue Gen.Config Proofs.Instances Proofs.C19.

(** For EVERY requested feature set S: a compiled module finds every crate
    module it names compiled. *)
Theorem C19_closure_self_contained : forall (S : list ustring) m m',
  In m module_names -> In m' (refs_of m) -> module_enabled S m -> module_enabled S m'.
Proof. exact closure_self_contained. Qed.

Theorem C19_features_monotone : forall (S S' : list ustring) m,
  (forall f, In f S -> In f S') -> module_enabled S m -> module_enabled S' m.
Proof. exact enabled_monotone. Qed.

Theorem C19_feature_enables_its_module : forall (S : list ustring) f,
  In f S -> gate_of f = Some (Some f) -> module_enabled S f.
Proof. exact feature_enables_its_module. Qed.

(** the current tree: each quantity module is gated by the feature of its name;
    the operand types of each derivation are referenced by and enabled with the
    derived quantity's feature; no catalogue module has a cfg of its own;
    `doc` = all 14; the decimal back-end is gated by `fpdec`. *)
Theorem C19_tree_facts : module_gates_ok = true /\ derivation_modules_ok = true /\ no_inner_cfgs = true /\
  doc_is_all = true /\ amount_backends_ok = true.
Proof. exact tree_facts. Qed.

Print Assumptions C19_closure_self_contained.
Print Assumptions C19_features_monotone.
Print Assumptions C19_feature_enables_its_module.
Print Assumptions C19_tree_facts.
