(* Props/C17.v — property C17: serialisation round-trips values exactly.
   Only statements; every proof is `exact <lemma>`.  serde, serde_derive,
   serde_json and fpdec's string conversion are MODELLED (Rt/Serde.v); the
   theorems are generic in the amount type's codec and take its round trip as a
   hypothesis, which is discharged for both amount types: trivially for f64 in
   the value tree, and for the decimal string form by the parse-after-print
   theorem of Amount/DecStr.v about the model of fpdec's two conversions. *)
From Coq Require Import String ZArith.
From QV Require Import Rt.Prelude Rt.Amount Rt.Quantity Rt.Serde Macro.Defs Gen.Prefixes Gen.Catalogue Gen.Config
  Gen.Kernels Macro.Inst Amount.F64 Amount.DecModel Amount.Dec Amount.DecCodec Proofs.Laws Proofs.Instances Proofs.C09 Proofs.C17.
Local Open Scope string_scope.

Theorem C17_unit_roundtrip : forall (g : gen_def SIPrefix), nodupb (gd_VARIANTS g) = true ->
  forall u, u < length (gd_VARIANTS g) ->
  ser_unit g u = VStr (nth u (gd_VARIANTS g) []) /\ de_unit g (ser_unit g u) = Some u.
Proof. exact unit_roundtrip. Qed.

Theorem C17_quantity_roundtrip : forall (am : Amount) (enc : am -> sval) (dcd : sval -> option am) (g : gen_def SIPrefix),
  nodupb (gd_VARIANTS g) = true -> forall (a : am) (u : nat),
  gd_path g <> PSingle -> gd_struct_fields g = [us "amount"; us "unit"] ->
  dcd (enc a) = Some a -> u < length (gd_VARIANTS g) ->
  de_qty am dcd g (ser_qty am enc g (q_new (base_of_gen am g) a u)) = Some (q_new (base_of_gen am g) a u).
Proof. exact qty_roundtrip_two. Qed.

Theorem C17_single_unit_roundtrip : forall (am : Amount) (enc : am -> sval) (dcd : sval -> option am) (g : gen_def SIPrefix)
  (a : am) (u : nat),
  gd_path g = PSingle -> gd_struct_fields g = [us "amount"] -> dcd (enc a) = Some a ->
  de_qty am dcd g (ser_qty am enc g (q_new (base_of_gen am g) a u)) = Some (q_new (base_of_gen am g) a u).
Proof. exact qty_roundtrip_one. Qed.

Theorem C17_distinct_values_distinct_serialisations : forall (am : Amount) (enc : am -> sval) (dcd : sval -> option am)
  (g : gen_def SIPrefix) (x y : Qt (base_of_gen am g)),
  de_qty am dcd g (ser_qty am enc g x) = Some x -> de_qty am dcd g (ser_qty am enc g y) = Some y ->
  ser_qty am enc g x = ser_qty am enc g y -> x = y.
Proof. exact ser_injective. Qed.

Theorem C17_f64_codec : forall x, dcd_f64 (enc_f64 x) = Some x.
Proof. exact f64_codec_roundtrip. Qed.

Theorem C17_decimal_codec : forall d : dec, (0 <= d_nfd d <= 18)%Z -> (Z.abs (d_coeff d) <= i128_max)%Z ->
  dcd_dec (enc_dec d) = Some d.
Proof. exact dec_codec_roundtrip. Qed.

(** every generated type of the tree derives both traits on enum and struct,
    has the expected fields and distinct variants; the feature is wired *)
Theorem C17_tree_facts : forallb serde_ok all_entries = true /\ serde_feature_wired = true.
Proof. exact (conj all_serde_ok serde_wired). Qed.

Print Assumptions C17_unit_roundtrip.
Print Assumptions C17_quantity_roundtrip.
Print Assumptions C17_single_unit_roundtrip.
Print Assumptions C17_distinct_values_distinct_serialisations.
Print Assumptions C17_f64_codec.
Print Assumptions C17_decimal_codec.
Print Assumptions C17_tree_facts.
