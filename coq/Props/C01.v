(* Props/C01.v — property C01: unit conversion preserves the physical value.
   Only statements; every proof is `exact <lemma>`.  This file holds the
   structural half (exact unit, same-unit identity, equivalence of the two
   queries, the normal form that pins operand roles); the magnitude bounds per
   back-end are in Props/C01acc.v. *)
From QV Require Import Rt.Prelude Rt.Amount Rt.Quantity Macro.Defs Gen.Prefixes Gen.Catalogue
  Gen.Kernels Macro.Inst Proofs.Laws Proofs.Instances Proofs.C01.

Theorem C01_convert_unit : forall (am : Amount) (S : QBase am), QLaws S -> forall q v q',
  In v (u_iter S) -> HasRefUnit_convert S q v = Ok q' -> q_unit S q' = v.
Proof. exact @c01_convert_unit. Qed.

(** converting to the unit a value already has returns the identical value:
    nothing is computed (NaN, -0, any decimal representation) *)
Theorem C01_convert_same_unit : forall (am : Amount) (S : QBase am), QLaws S -> forall q,
  HasRefUnit_convert S q (q_unit S q) = Ok q /\
  HasRefUnit_equiv_amount S q (q_unit S q) = Ok (q_amount S q).
Proof. intros am S L q. exact (conj (c01_convert_same_unit S L q) (c01_equiv_same_unit S q)). Qed.

(** the equivalent-amount query returns the number conversion stores *)
Theorem C01_equiv_amount_is_convert : forall (am : Amount) (S : QBase am), QLaws S -> forall q v,
  (forall q', HasRefUnit_convert S q v = Ok q' -> HasRefUnit_equiv_amount S q v = Ok (q_amount S q')) /\
  (forall x, HasRefUnit_equiv_amount S q v = Ok x -> HasRefUnit_convert S q v = Ok (q_new S x v)) /\
  (forall k, HasRefUnit_equiv_amount S q v = Panic k <-> HasRefUnit_convert S q v = Panic k).
Proof. exact @c01_equiv_is_convert. Qed.

(** normal form for different units: (scale(from) / scale(to)) * amount *)
Theorem C01_convert_kernel : forall (am : Amount) (S : QBase am) q v, q_unit S q <> v ->
  HasRefUnit_convert S q v =
  bind (a_div am (u_scale S (q_unit S q)) (u_scale S v)) (fun r =>
  bind (a_mul am r (q_amount S q)) (fun m => Ok (q_new S m v))).
Proof. exact @c01_convert_kernel. Qed.

Theorem C01_dimensionless : forall (am : Amount) (a : am),
  HasRefUnit_convert (amount_base am) a 0 = Ok a /\ HasRefUnit_equiv_amount (amount_base am) a 0 = Ok a.
Proof. exact c01_dimensionless. Qed.

Theorem C01_catalogue : forall (am : Amount) e, In e ref_entries -> QLaws (base_of_gen am (ce_gen e)).
Proof. exact ref_entry_laws. Qed.

Print Assumptions C01_convert_unit.
Print Assumptions C01_convert_same_unit.
Print Assumptions C01_equiv_amount_is_convert.
Print Assumptions C01_convert_kernel.
Print Assumptions C01_dimensionless.
Print Assumptions C01_catalogue.
