(* Props/C18.v — property C18: operations are total on in-range inputs.
   Only statements; every proof is `exact <lemma>`.  This file: the binary
   floating-point configuration (every amount whatsoever) and the structure of
   the panic sources; the decimal envelope lemmas are in Props/C18dec.v. *)
From QV Require Import Rt.Prelude Rt.Amount Rt.Quantity Macro.Defs Gen.Prefixes Gen.Catalogue
  Gen.Kernels Macro.Inst Amount.F64 Proofs.Laws Proofs.Instances Proofs.C09 Proofs.Derived Proofs.C13 Proofs.C14 Proofs.C10 Proofs.C18.

(** binary64: + - * / never panic (they return infinities / NaN) *)
Theorem C18_f64_amount_total : AmountTotal F64.
Proof. exact f64_total. Qed.

(** for any amount type with total operations: conversion, comparison, + - /
    never panic on a type with reference unit, for ALL amounts *)
Theorem C18_kernels_total : forall (am : Amount), AmountTotal am -> forall (S : QBase am) (x y : Qt S) (v : nat),
  total (HasRefUnit_convert S x v) /\ total (HasRefUnit_equiv_amount S x v) /\
  total (HasRefUnit_eq S x y) /\ total (HasRefUnit_partial_cmp S x y) /\
  total (HasRefUnit_add S x y) /\ total (HasRefUnit_sub S x y) /\ total (HasRefUnit_div S x y).
Proof.
  intros am AT S x y v.
  exact (conj (total_convert AT S x v) (conj (total_equiv_amount AT S x v) (conj (total_eq AT S x y) (conj (total_partial_cmp AT S x y)
        (conj (total_add AT S x y) (conj (total_sub AT S x y) (total_div AT S x y))))))).
Qed.

(** _fit cannot unwrap None when the reference unit is iterated *)
Theorem C18_fit_total : forall (am : Amount), AmountTotal am -> forall (S : QBase am),
  In (u_ref_unit S) (u_iter S) -> forall m, total (HasRefUnit__fit S m).
Proof. exact @total_fit. Qed.

(** derived products and quotients *)
Theorem C18_derived_total : forall (am : Amount), AmountTotal am -> forall (op : am -> am -> res am) (R : QFull am) su sv a b,
  (forall x y, total (op x y)) -> (forall m, total (q_fit R m)) -> total (derived_nf op R su sv a b).
Proof. exact @total_derived. Qed.

(** rates *)
Theorem C18_rates_total : forall (am : Amount), AmountTotal am ->
  (forall (TQ : QBase am) (PQ : QFull am) r q, (forall x y, total (q_div PQ x y)) ->
     total (Rate_mul TQ PQ r q) /\ total (tmpl_Mul_Qty_Rate PQ TQ q r)) /\
  (forall (TQ : QFull am) (PQ : QBase am) q r, (forall x y, total (q_div TQ x y)) -> total (tmpl_Div_Qty_Rate TQ PQ q r)).
Proof. intros am AT. exact (conj (@total_rate_mul am AT) (@total_qty_div_rate am AT)). Qed.

(** table conversions and scaling by numbers *)
Theorem C18_table_and_scalar_total : forall (am : Amount), AmountTotal am -> forall (S : QBase am),
  (forall rows q to, total (ConversionTable_convert S rows q to)) /\
  (forall k q, total (tmpl_Mul_Amnt_Qty S k q) /\ total (tmpl_Mul_Qty_Amnt S q k) /\ total (tmpl_Div_Qty_Amnt S q k)).
Proof. intros am AT S. exact (conj (total_table AT S) (total_scalar AT S)). Qed.

(** the generated operators of every reference-unit type *)
Theorem C18_operators_total : forall (am : Amount), AmountTotal am -> forall (g : gen_def SIPrefix), gd_path g = PRef ->
  In (gen_ref g) (gen_iter g) ->
  forall (x y : Qt (base_of_gen am g)) (m : am),
  total (q_eq (full_of_gen am g) x y) /\ total (q_partial_cmp (full_of_gen am g) x y) /\
  total (q_add (full_of_gen am g) x y) /\ total (q_sub (full_of_gen am g) x y) /\
  total (q_div (full_of_gen am g) x y) /\ total (q_fit (full_of_gen am g) m).
Proof. exact @total_operators. Qed.

Theorem C18_reference_units_iterated : forallb ref_iterated all_entries = true.
Proof. exact all_ref_iterated. Qed.

(** the only other panic: + - / on different units of a type without reference unit *)
Theorem C18_documented_panic : forall (am : Amount) (g : gen_def SIPrefix), gd_path g = PNoRef ->
  forall x y : Qt (base_of_gen am g), q_unit (base_of_gen am g) x <> q_unit (base_of_gen am g) y ->
  q_add (full_of_gen am g) x y = Panic PUnitMismatch /\
  q_sub (full_of_gen am g) x y = Panic PUnitMismatch /\
  q_div (full_of_gen am g) x y = Panic PUnitMismatch.
Proof. exact noref_arith_diff. Qed.

Print Assumptions C18_f64_amount_total.
Print Assumptions C18_kernels_total.
Print Assumptions C18_fit_total.
Print Assumptions C18_derived_total.
Print Assumptions C18_rates_total.
Print Assumptions C18_table_and_scalar_total.
Print Assumptions C18_operators_total.
Print Assumptions C18_reference_units_iterated.
Print Assumptions C18_documented_panic.
