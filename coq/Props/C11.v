(* Props/C11.v — property C11: generated types reflect their declaration in
   any order or literal form.  Only statements; every proof is `exact <lemma>`.
   The generator is MODELLED (Macro/Analyze.v, Macro/Casing.v, Macro/Impls.v: it
   describes calls into syn and convert_case); the model is tied to the code by
   the computed theorem C11_model_is_generator on every definition of the tree
   and by the correspondence on fresh random definitions run through the
   repository's own analyze/codegen. *)
From Coq Require Import List Permutation Sorted.
From QV Require Import Rt.Prelude Rt.Amount Macro.Defs Macro.Casing Macro.Impls Macro.Analyze Gen.Prefixes Gen.Catalogue
  Amount.F64 Proofs.Instances Proofs.Sort Proofs.C09 Proofs.DerivedCat Proofs.C11 Proofs.SortPerm.
From Flocq Require IEEE754.Binary.
Import ListNotations.

(** the stable sort (any stable algorithm computes this list): permutation,
    no adjacent inversion, equal keys keep their input order *)
Theorem C11_stable_sort : forall (T : Type) (gt : T -> T -> bool) (P : T -> Prop),
  (forall a b, P a -> P b -> gt a b = true -> gt b a = false) ->
  (forall a b c, P a -> P b -> P c -> gt a b = false -> gt b c = false -> gt a c = false) ->
  forall l, Forall P l ->
  Permutation (sort_stable gt l) l /\ Sorted (le_rel gt) (sort_stable gt l) /\
  forall k, P k -> List.filter (same_key gt k) (sort_stable gt l) = List.filter (same_key gt k) l.
Proof.
  intros T gt P Ha Hn l Hl.
  exact (conj (sort_perm gt l) (conj (sort_sorted gt P Ha l Hl) (fun k Hk => sort_is_stable gt P Ha Hn k l Hk Hl))).
Qed.

(** what analyze returns, for EVERY definition it accepts *)
Theorem C11_analyze_shape : forall d a, analyze d = Some a -> analysed_shape a.
Proof. exact analyze_shape. Qed.

Theorem C11_units_without_reference_unit : forall a us, an_ref a = None -> an_units a = sort_stable name_gt us ->
  Permutation (an_units a) us /\ Sorted (le_rel name_gt) (an_units a) /\
  forall k, List.filter (same_key name_gt k) (an_units a) = List.filter (same_key name_gt k) us.
Proof. exact noref_units. Qed.

(** reordering the attributes can only change the order inside a group of equal
    key: each group is the input's subsequence; the reference unit leads its group *)
Theorem C11_units_with_reference_unit : forall a r us, an_units a = sort_stable key_gt (r :: us) -> Forall key_finite (r :: us) ->
  Permutation (an_units a) (r :: us) /\ Sorted (le_rel key_gt) (an_units a) /\
  (forall k, key_finite k -> List.filter (same_key key_gt k) (an_units a) = List.filter (same_key key_gt k) (r :: us)) /\
  exists rest, List.filter (same_key key_gt r) (an_units a) = r :: rest.
Proof. exact ref_units. Qed.

(** "Reordering the unit attributes changes nothing observable except the relative order of units
    that share a scale": permuting the attributes of a definition gives the same verdict, the same
    reference unit, a permutation of the same units and the same sequence of keys ... *)
Theorem C11_attribute_order_general : forall d1 d2 a1,
  Permutation (rd_attrs d1) (rd_attrs d2) -> analyze d1 = Some a1 ->
  (an_ref a1 <> None -> Forall key_finite (an_units a1)) ->
  exists a2, analyze d2 = Some a2 /\ an_ref a2 = an_ref a1 /\
    Permutation (an_units a1) (an_units a2) /\
    match an_ref a1 with
    | None => Forall2 (fun a b => same_key name_gt a b = true) (an_units a1) (an_units a2)
    | Some _ => Forall2 (fun a b => same_key key_gt a b = true) (an_units a1) (an_units a2)
    end.
Proof. exact analyze_perm_general. Qed.

(** ... and exactly the same result when no two units share a name (no reference unit) resp. a scale value *)
Theorem C11_attribute_order_names : forall d1 d2 a1,
  Permutation (rd_attrs d1) (rd_attrs d2) ->
  analyze d1 = Some a1 -> an_ref a1 = None ->
  NoDup (map (fun u => name_of_ident (ud_ident u)) (an_units a1)) ->
  analyze d2 = Some a1.
Proof. exact analyze_perm_noref_names. Qed.

Theorem C11_attribute_order_scales : forall d1 d2 a1,
  Permutation (rd_attrs d1) (rd_attrs d2) ->
  analyze d1 = Some a1 -> an_ref a1 <> None ->
  Forall key_finite (an_units a1) ->
  NoDup (map (fun u => Binary.B2R 53 1024 (scale_key u)) (an_units a1)) ->
  analyze d2 = Some a1.
Proof. exact analyze_perm_ref_values. Qed.

Theorem C11_path_selection : forall a,
  expected_path a = match an_units a with [_] => PSingle | _ => match an_ref a with Some _ => PRef | None => PNoRef end end.
Proof. exact path_selection. Qed.

(** the model IS the generator on every definition of the current tree:
    registry (order, names, symbols, prefixes, scale literals, reference unit,
    constants), the operator set of every derivation, the per-path wiring *)
Theorem C11_model_is_generator :
  forallb registry_ok all_entries = true /\ forallb derived_rows_ok all_entries = true /\
  forallb (fun e => wiring_ok (ce_gen e)) all_entries = true.
Proof. exact (conj all_registry_ok (conj all_derived_rows_ok all_wiring_ok)). Qed.

Print Assumptions C11_stable_sort.
Print Assumptions C11_attribute_order_general.
Print Assumptions C11_attribute_order_names.
Print Assumptions C11_attribute_order_scales.
Print Assumptions C11_analyze_shape.
Print Assumptions C11_units_without_reference_unit.
Print Assumptions C11_units_with_reference_unit.
Print Assumptions C11_path_selection.
Print Assumptions C11_model_is_generator.
