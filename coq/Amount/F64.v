(* Amount/F64.v — the binary floating-point amount type: Rust's f64 as Flocq's
   binary64 (IEEE 754, round to nearest even).  Modelled, validated by the
   correspondence check: that Rust's + - * / on f64 are the IEEE operations and
   that rustc rounds literals correctly. *)
From Coq Require Import ZArith.
From Flocq Require Import IEEE754.BinarySingleNaN IEEE754.Binary IEEE754.Bits.
From QV Require Import Rt.Prelude Rt.Amount Rt.Fmt.

Definition f64 := binary64.

Definition f64_zero : f64 := B754_zero 53 1024 false.
Definition f64_one : f64 := b64_of_bits 4607182418800017408.   (* 0x3FF0000000000000 *)

Definition f64_add (x y : f64) : f64 := b64_plus mode_NE x y.
Definition f64_sub (x y : f64) : f64 := b64_minus mode_NE x y.
Definition f64_mul (x y : f64) : f64 := b64_mult mode_NE x y.
Definition f64_div (x y : f64) : f64 := b64_div mode_NE x y.
Definition f64_neg (x : f64) : f64 := b64_opp x.
Definition f64_abs (x : f64) : f64 := b64_abs x.
Definition f64_sign_neg (x : f64) : bool :=
  match x with
  | B754_zero _ _ s | B754_infinity _ _ s => s
  | B754_nan _ _ s _ _ => s
  | B754_finite _ _ s _ _ _ => s
  end.
Definition f64_cmp (x y : f64) : option comparison := b64_compare x y.
Definition f64_eqb (x y : f64) : bool :=
  match f64_cmp x y with Some Eq => true | _ => false end.

(** [lit as f64]: the exact decimal value of the literal, correctly rounded
    (for an integer literal below 2^53 the conversion is exact) *)
Definition f64_of_lit (l : lit) : option f64 :=
  let v := if (0 <=? l_exp l)%Z then round_ratio (l_digits l * 10 ^ l_exp l) 1
           else round_ratio (l_digits l) (10 ^ (- l_exp l)) in
  Some (sf_to_b64 (sf_set_sign (l_neg l) v)).

Definition F64 : Amount := {|
  A := f64;
  a_zero := f64_zero;
  a_one := f64_one;
  a_add := fun x y => Ok (f64_add x y);
  a_sub := fun x y => Ok (f64_sub x y);
  a_mul := fun x y => Ok (f64_mul x y);
  a_div := fun x y => Ok (f64_div x y);
  a_neg := f64_neg;
  a_abs := f64_abs;
  a_sign_neg := f64_sign_neg;
  a_eqb := f64_eqb;
  a_cmp := f64_cmp;
  a_of_lit := f64_of_lit;
  a_is_dec := false;
  a_display := f64_to_text
|}.

(** canonical text of an f64 for the correspondence: 16 hex digits of the bit
    pattern; every NaN prints as NaN (payloads are not modelled) *)
From Coq Require Import String.
From QV Require Import Rt.Show.
Definition show_f64 (x : f64) : string :=
  match x with
  | B754_nan _ _ _ _ _ => "NaN"%string
  | _ => show_hex64 (bits_of_b64 x)
  end.
