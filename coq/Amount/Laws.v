(* Amount/Laws.v — order laws of the amount types: == is symmetric,
   partial_cmp is antisymmetric, and partial_cmp reports Equal exactly when ==
   holds.  Proved for binary64 from Flocq (all values, NaN included) and for
   the model of fpdec::Decimal (all values with 0..18 fractional digits, the
   type's invariant). *)
From Coq Require Import ZArith Lia.
From Flocq Require Import IEEE754.Binary IEEE754.Bits.
From QV Require Import Rt.Prelude Rt.Amount Amount.F64 Amount.DecModel Amount.Dec.

Record CmpLaws (am : Amount) (ok : am -> Prop) : Prop := {
  cl_eqb_sym : forall x y, ok x -> ok y -> a_eqb am x y = a_eqb am y x;
  cl_cmp_antisym : forall x y, ok x -> ok y -> a_cmp am x y = option_map CompOpp (a_cmp am y x);
  cl_cmp_eq : forall x y, ok x -> ok y -> (a_cmp am x y = Some Eq <-> a_eqb am x y = true);
  cl_mul_ok : forall x y z, ok x -> ok y -> a_mul am x y = Ok z -> ok z
}.

(** * binary64 *)
Lemma f64_cmp_swap x y : f64_cmp x y = option_map CompOpp (f64_cmp y x).
Proof.
  unfold f64_cmp, b64_compare. rewrite (Bcompare_swap 53 1024 y x).
  destruct (Bcompare 53 1024 y x) as [c|]; reflexivity.
Qed.

Lemma f64_laws : CmpLaws F64 (fun _ => True).
Proof.
  split; cbn [a_eqb a_cmp a_mul F64 A].
  - intros x y _ _. unfold f64_eqb. rewrite (f64_cmp_swap x y).
    destruct (f64_cmp y x) as [[]|]; reflexivity.
  - intros x y _ _. apply f64_cmp_swap.
  - intros x y _ _. unfold f64_eqb. destruct (f64_cmp x y) as [[]|]; split; congruence.
  - intros; exact I.
Qed.

(** * Decimal *)
Local Open Scope Z_scope.
Definition dec_ok (d : dec) : Prop := 0 <= d_nfd d <= 18.

Lemma adjust_swap x p y q :
  checked_adjust_coeffs y q x p = (snd (checked_adjust_coeffs x p y q), fst (checked_adjust_coeffs x p y q)).
Proof.
  unfold checked_adjust_coeffs. rewrite (Z.compare_antisym p q).
  destruct (p ?= q); reflexivity.
Qed.

Lemma chk_zero_pow n : 0 <= n <= 38 -> checked_mul_pow_ten 0 n = Some 0.
Proof.
  intros H. unfold checked_mul_pow_ten. destruct (Z.gtb_spec n 38); [exfalso; lia|]. vm_compute. reflexivity.
Qed.

(** the coefficient whose adjustment overflows is not zero *)
Lemma adjust_none_l x p y q : 0 <= p <= 18 -> 0 <= q <= 18 ->
  fst (checked_adjust_coeffs x p y q) = None -> x <> 0.
Proof.
  intros Hp Hq. unfold checked_adjust_coeffs. destruct (Z.compare_spec p q) as [E|E|E]; cbn [fst]; try discriminate.
  intros H ->. rewrite chk_zero_pow in H by lia. discriminate.
Qed.
Lemma adjust_none_r x p y q : 0 <= p <= 18 -> 0 <= q <= 18 ->
  snd (checked_adjust_coeffs x p y q) = None -> y <> 0.
Proof.
  intros Hp Hq. unfold checked_adjust_coeffs. destruct (Z.compare_spec p q) as [E|E|E]; cbn [snd]; try discriminate.
  intros H ->. rewrite chk_zero_pow in H by lia. discriminate.
Qed.
Lemma adjust_not_both x p y q :
  ~ (fst (checked_adjust_coeffs x p y q) = None /\ snd (checked_adjust_coeffs x p y q) = None).
Proof. unfold checked_adjust_coeffs. destruct (p ?= q); cbn; intros [? ?]; discriminate. Qed.

Lemma dec_eqb_sym x y : dec_eqb x y = dec_eqb y x.
Proof.
  unfold dec_eqb. rewrite (adjust_swap (d_coeff x) (d_nfd x) (d_coeff y) (d_nfd y)).
  destruct (checked_adjust_coeffs (d_coeff x) (d_nfd x) (d_coeff y) (d_nfd y)) as [[a|] [b|]]; cbn [fst snd]; try reflexivity.
  apply Z.eqb_sym.
Qed.

Lemma dec_cmp_antisym x y : dec_ok x -> dec_ok y -> dec_cmp x y = CompOpp (dec_cmp y x).
Proof.
  intros Hx Hy. unfold dec_cmp.
  pose proof (adjust_none_l (d_coeff x) (d_nfd x) (d_coeff y) (d_nfd y) Hx Hy) as Hl.
  pose proof (adjust_none_r (d_coeff x) (d_nfd x) (d_coeff y) (d_nfd y) Hx Hy) as Hr.
  pose proof (adjust_not_both (d_coeff x) (d_nfd x) (d_coeff y) (d_nfd y)) as Hb.
  rewrite (adjust_swap (d_coeff x) (d_nfd x) (d_coeff y) (d_nfd y)).
  destruct (checked_adjust_coeffs (d_coeff x) (d_nfd x) (d_coeff y) (d_nfd y)) as [[a|] [b|]]; cbn [fst snd] in *.
  - apply Z.compare_antisym.
  - specialize (Hr eq_refl). destruct (d_coeff y <? 0) eqn:E1, (d_coeff y >? 0) eqn:E2; try reflexivity; lia.
  - specialize (Hl eq_refl). destruct (d_coeff x >? 0) eqn:E1, (d_coeff x <? 0) eqn:E2; try reflexivity; lia.
  - exfalso. apply Hb. split; reflexivity.
Qed.

Lemma dec_cmp_eq_iff x y : dec_ok x -> dec_ok y -> (dec_cmp x y = Eq <-> dec_eqb x y = true).
Proof.
  intros Hx Hy. unfold dec_cmp, dec_eqb.
  pose proof (adjust_not_both (d_coeff x) (d_nfd x) (d_coeff y) (d_nfd y)) as Hb.
  destruct (checked_adjust_coeffs (d_coeff x) (d_nfd x) (d_coeff y) (d_nfd y)) as [[a|] [b|]]; cbn [fst snd] in *.
  - rewrite Z.compare_eq_iff, Z.eqb_eq. reflexivity.
  - destruct (d_coeff y <? 0); split; discriminate.
  - destruct (d_coeff x >? 0); split; discriminate.
  - exfalso. apply Hb. split; reflexivity.
Qed.

Lemma dec_mul_ok x y z : dec_ok x -> dec_ok y -> dec_mul x y = Ok z -> dec_ok z.
Proof.
  unfold dec_ok, dec_mul. intros Hx Hy.
  destruct (dec_eq_zero x || dec_eq_zero y)%bool; [intros [= <-]; cbn; lia|].
  destruct (dec_eq_one y); [intros [= <-]; exact Hx|].
  destruct (dec_eq_one x); [intros [= <-]; exact Hy|].
  unfold checked_mul_rounded, max_nfd.
  destruct (18 >=? d_nfd x + d_nfd y) eqn:E.
  - destruct (chk _); [|discriminate]. intros [= <-]. cbn. lia.
  - destruct (chk _).
    + destruct (i128_div_rounded _ _); cbn [bind]; [|discriminate]. intros [= <-]. cbn. lia.
    + destruct (i128_mul_div_ten_pow_rounded _ _ _); cbn [bind]; [|discriminate]. intros [= <-]. cbn. lia.
Qed.

Lemma dec_laws : CmpLaws DEC dec_ok.
Proof.
  split; cbn [a_eqb a_cmp a_mul DEC A].
  - intros x y _ _. apply dec_eqb_sym.
  - intros x y Hx Hy. cbn [option_map]. f_equal. apply dec_cmp_antisym; assumption.
  - intros x y Hx Hy. split.
    + intros [= H]. apply dec_cmp_eq_iff; assumption.
    + intros H. f_equal. apply dec_cmp_eq_iff; assumption.
  - apply dec_mul_ok.
Qed.
