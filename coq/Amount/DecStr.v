(* Amount/DecStr.v — the decimal-to-string and string-to-decimal functions of
   the fpdec model (Amount/DecModel.v) round-trip:

     dec_from_str (dec_to_string d) = Some d

   for every d with 0 <= nfd <= 18 and |coeff| <= i128::MAX (i.e. every
   Decimal except those with coefficient i128::MIN, for which [dec_to_string]
   panics when nfd > 0 and whose text is rejected by the parser when nfd = 0).
   Also: the text is an optional '-', digits, and at most one '.'; it never
   contains an exponent marker. *)
From Coq Require Import Lia.
From QV Require Import Rt.Prelude Amount.DecModel.
Local Open Scope Z_scope.

(** * Constants *)

Lemma i128_max_lt_pow39 : i128_max < 10 ^ 39.
Proof. vm_compute; reflexivity. Qed.

Lemma i128_max_lt_pow128 : i128_max < 2 ^ 128.
Proof. vm_compute; reflexivity. Qed.

Lemma pow10_pos (k : Z) : 0 <= k -> 0 < 10 ^ k.
Proof. intros; apply Z.pow_pos_nonneg; lia. Qed.

Lemma pow10_S (w : nat) : 10 ^ Z.of_nat (S w) = 10 * 10 ^ Z.of_nat w.
Proof. rewrite Nat2Z.inj_succ, Z.pow_succ_r by lia; reflexivity. Qed.

(** * Digit characters *)

Definition digit_char (q : Z) : N := Z.to_N (48 + q).

Lemma digit_char_is_digit q : 0 <= q <= 9 -> is_digit (digit_char q) = true.
Proof.
  intros H; unfold is_digit, digit_char.
  rewrite andb_true_iff, !N.leb_le; lia.
Qed.

Lemma digit_char_val q : 0 <= q <= 9 -> Z.of_N (digit_char q) - 48 = q.
Proof. unfold digit_char; lia. Qed.

Lemma digit_char_neq q (c : N) :
  0 <= q <= 9 -> (c < 48 \/ 57 < c)%N -> (digit_char q =? c)%N = false.
Proof. intros H Hc; unfold digit_char; apply N.eqb_neq; lia. Qed.

Lemma digit_char_zero q : 0 < q <= 9 -> (digit_char q =? 48)%N = false.
Proof. intros H; unfold digit_char; apply N.eqb_neq; lia. Qed.

Lemma fixdigits_S w n :
  fixdigits (S w) n
  = digit_char (n / 10 ^ Z.of_nat w) :: fixdigits w (n mod 10 ^ Z.of_nat w).
Proof. reflexivity. Qed.

Lemma head_digit_range w n :
  0 <= n < 10 ^ Z.of_nat (S w) -> 0 <= n / 10 ^ Z.of_nat w <= 9.
Proof.
  intros H. rewrite pow10_S in H.
  assert (Hp := pow10_pos (Z.of_nat w) ltac:(lia)).
  split.
  - apply Z.div_pos; lia.
  - assert (n / 10 ^ Z.of_nat w < 10); [|lia].
    apply Z.div_lt_upper_bound; lia.
Qed.

Lemma length_fixdigits w n : length (fixdigits w n) = w.
Proof. revert n; induction w; intros; cbn [fixdigits length]; auto. Qed.

(** * [accum_digits] reads back [fixdigits] *)

Lemma accum_fixdigits w : forall n acc cnt rest,
  0 <= n < 10 ^ Z.of_nat w ->
  accum_digits (fixdigits w n ++ rest) acc cnt
  = accum_digits rest (acc * 10 ^ Z.of_nat w + n) (cnt + Z.of_nat w).
Proof.
  induction w as [|w IH]; intros n acc cnt rest H.
  - cbn [fixdigits app]. change (10 ^ Z.of_nat 0) with 1 in *.
    f_equal; lia.
  - rewrite fixdigits_S. cbn [app accum_digits].
    assert (Hq := head_digit_range w n H).
    assert (Hp := pow10_pos (Z.of_nat w) ltac:(lia)).
    rewrite digit_char_is_digit, digit_char_val by assumption.
    rewrite IH by (apply Z.mod_pos_bound; assumption).
    rewrite pow10_S.
    assert (E := Z.div_mod n (10 ^ Z.of_nat w) ltac:(lia)).
    f_equal; [|lia].
    set (p := 10 ^ Z.of_nat w) in *.
    set (q := n / p) in *. set (r := n mod p) in *.
    rewrite E. ring.
Qed.

Lemma accum_fixdigits_nil w n acc cnt :
  0 <= n < 10 ^ Z.of_nat w ->
  accum_digits (fixdigits w n) acc cnt
  = (acc * 10 ^ Z.of_nat w + n, cnt + Z.of_nat w, []).
Proof.
  intros H. rewrite <- (app_nil_r (fixdigits w n)).
  rewrite accum_fixdigits by assumption. reflexivity.
Qed.

Lemma accum_fixdigits_stop w n acc cnt c rest :
  0 <= n < 10 ^ Z.of_nat w -> is_digit c = false ->
  accum_digits (fixdigits w n ++ c :: rest) acc cnt
  = (acc * 10 ^ Z.of_nat w + n, cnt + Z.of_nat w, c :: rest).
Proof.
  intros H Hc. rewrite accum_fixdigits by assumption.
  cbn [accum_digits]. rewrite Hc. reflexivity.
Qed.

(** * [strip_zeros] / [nat_digits] *)

(** stripping the zeros of a fixed-width representation of n > 0 gives the
    representation of n in its own width *)
Lemma strip_fixdigits w : forall n,
  0 < n < 10 ^ Z.of_nat w ->
  exists j : nat, (j < w)%nat /\ 10 ^ Z.of_nat j <= n < 10 ^ Z.of_nat (S j) /\
                  strip_zeros (fixdigits w n) = fixdigits (S j) n.
Proof.
  induction w as [|w IH]; intros n H.
  - change (10 ^ Z.of_nat 0) with 1 in H. lia.
  - assert (Hp := pow10_pos (Z.of_nat w) ltac:(lia)).
    assert (Hq := head_digit_range w n ltac:(lia)).
    destruct (Z.eq_dec (n / 10 ^ Z.of_nat w) 0) as [E0|N0].
    + assert (Hlt : n < 10 ^ Z.of_nat w).
      { apply Z.div_small_iff in E0; lia. }
      destruct (IH n ltac:(lia)) as (j & Hj & Hr & E).
      exists j. split; [lia|]. split; [exact Hr|].
      rewrite fixdigits_S, E0. cbn [strip_zeros].
      change (digit_char 0 =? 48)%N with true. cbv iota.
      rewrite Z.mod_small by lia. exact E.
    + exists w. split; [lia|]. split.
      * split; [|lia].
        assert (E := Z.div_mod n (10 ^ Z.of_nat w) ltac:(lia)).
        assert (Hm := Z.mod_pos_bound n (10 ^ Z.of_nat w) Hp).
        nia.
      * rewrite fixdigits_S. cbn [strip_zeros].
        rewrite digit_char_zero by lia. reflexivity.
Qed.

Lemma pow2_le_pow10 (k : Z) : 0 <= k -> 2 ^ k <= 10 ^ k.
Proof. intros; apply Z.pow_le_mono_l; lia. Qed.

Lemma nat_digits_zero : nat_digits 0 = [48%N].
Proof. reflexivity. Qed.

(** [nat_digits n] for n > 0: the j+1 digits of n, where 10^j <= n < 10^(j+1) *)
Lemma nat_digits_pos n :
  0 < n ->
  exists j : nat, 10 ^ Z.of_nat j <= n < 10 ^ Z.of_nat (S j) /\
                  nat_digits n = fixdigits (S j) n.
Proof.
  intros H. unfold nat_digits.
  set (w := S (Z.to_nat (Z.log2 n))).
  assert (Hw : 0 < n < 10 ^ Z.of_nat w).
  { split; [assumption|].
    destruct (Z.log2_spec n H) as [_ Hu].
    assert (0 <= Z.log2 n) by apply Z.log2_nonneg.
    unfold w. rewrite Nat2Z.inj_succ, Z2Nat.id by assumption.
    eapply Z.lt_le_trans; [exact Hu|]. apply pow2_le_pow10; lia. }
  destruct (strip_fixdigits w n Hw) as (j & _ & Hr & E).
  exists j. split; [exact Hr|]. rewrite E.
  rewrite fixdigits_S. reflexivity.
Qed.

(** the leading digit of the own-width representation is not '0' *)
Lemma lead_digit_range j n :
  10 ^ Z.of_nat j <= n < 10 ^ Z.of_nat (S j) -> 0 < n / 10 ^ Z.of_nat j <= 9.
Proof.
  intros H.
  assert (Hp := pow10_pos (Z.of_nat j) ltac:(lia)).
  assert (Hq := head_digit_range j n ltac:(lia)).
  split; [|lia].
  assert (1 <= n / 10 ^ Z.of_nat j); [|lia].
  apply Z.div_le_lower_bound; lia.
Qed.

Lemma strip_lead j n rest :
  10 ^ Z.of_nat j <= n < 10 ^ Z.of_nat (S j) ->
  strip_zeros (fixdigits (S j) n ++ rest) = fixdigits (S j) n ++ rest.
Proof.
  intros H. rewrite fixdigits_S. cbn [app strip_zeros].
  rewrite digit_char_zero by (apply lead_digit_range; assumption).
  reflexivity.
Qed.

(** number of digits against the i128 bound *)
Lemma width_bound (k : Z) n : 0 <= k -> 10 ^ k <= n -> n <= i128_max -> k <= 38.
Proof.
  intros Hk Hl Hu.
  destruct (Z_le_gt_dec k 38) as [|Hgt]; [assumption|exfalso].
  assert (10 ^ 39 <= 10 ^ k) by (apply Z.pow_le_mono_r; lia).
  pose proof i128_max_lt_pow39. lia.
Qed.

(** * [parse_mantissa] *)

(** the overflow tests at the end of [parse_mantissa] *)
Definition pm_check (c2 n_int n_frac : Z) (s4 : ustring) : option (Z * Z * ustring) :=
  let n_digits := n_int + n_frac in
  if n_digits =? 0 then None else
  let coeff := c2 mod 2 ^ 128 in
  if (n_digits >? 39) || ((n_digits =? 39) && (coeff <? 10 ^ 38))
     || (coeff >? i128_max) then None
  else Some (coeff, n_frac, s4).

Lemma pm_check_ok c2 n_int n_frac s4 :
  0 <= c2 <= i128_max -> 0 < n_int + n_frac <= 39 ->
  (n_int + n_frac = 39 -> 10 ^ 38 <= c2) ->
  pm_check c2 n_int n_frac s4 = Some (c2, n_frac, s4).
Proof.
  intros Hc Hn H39. unfold pm_check. cbv zeta.
  pose proof i128_max_lt_pow128.
  rewrite Z.mod_small by lia.
  destruct (Z.eqb_spec (n_int + n_frac) 0); [lia|].
  destruct (Z.gtb_spec (n_int + n_frac) 39); [lia|].
  destruct (Z.gtb_spec c2 i128_max); [lia|].
  destruct (Z.eqb_spec (n_int + n_frac) 39) as [E|]; cbn [orb andb]; [|reflexivity].
  destruct (Z.ltb_spec c2 (10 ^ 38)); [specialize (H39 E); lia|reflexivity].
Qed.

Lemma is_digit_dot : is_digit ch_dot = false.
Proof. reflexivity. Qed.

(** integer text *)
Lemma pm_int j a :
  10 ^ Z.of_nat j <= a < 10 ^ Z.of_nat (S j) -> a <= i128_max ->
  parse_mantissa (fixdigits (S j) a) = Some (a, 0, []).
Proof.
  intros Hr Hu.
  assert (Hp := pow10_pos (Z.of_nat j) ltac:(lia)).
  assert (Hj := width_bound (Z.of_nat j) a ltac:(lia) ltac:(lia) Hu).
  unfold parse_mantissa.
  rewrite accum_fixdigits_nil by lia. cbv beta iota.
  apply pm_check_ok; [lia|lia|].
  intros E. assert (Z.of_nat j = 38) as <- by lia. lia.
Qed.

(** ".fff" (what is left of "0.fff" after skipping zeros) *)
Lemma pm_frac0 (k : nat) f :
  (0 < k <= 18)%nat -> 0 <= f < 10 ^ Z.of_nat k -> f <= i128_max ->
  parse_mantissa (ch_dot :: fixdigits k f) = Some (f, Z.of_nat k, []).
Proof.
  intros Hk Hf Hu.
  unfold parse_mantissa. cbn [accum_digits]. rewrite is_digit_dot.
  cbv beta iota. rewrite N.eqb_refl.
  rewrite accum_fixdigits_nil by lia. cbv beta iota.
  replace (0 * 10 ^ Z.of_nat k + f) with f by lia.
  apply pm_check_ok; lia.
Qed.

(** "iii.fff" *)
Lemma pm_frac j i (k : nat) f :
  10 ^ Z.of_nat j <= i < 10 ^ Z.of_nat (S j) ->
  0 <= f < 10 ^ Z.of_nat k ->
  i * 10 ^ Z.of_nat k + f <= i128_max ->
  parse_mantissa (fixdigits (S j) i ++ ch_dot :: fixdigits k f)
  = Some (i * 10 ^ Z.of_nat k + f, Z.of_nat k, []).
Proof.
  intros Hi Hf Hu.
  assert (Hpj := pow10_pos (Z.of_nat j) ltac:(lia)).
  assert (Hpk := pow10_pos (Z.of_nat k) ltac:(lia)).
  assert (Hlow : 10 ^ (Z.of_nat j + Z.of_nat k) <= i * 10 ^ Z.of_nat k + f).
  { rewrite Z.pow_add_r by lia. nia. }
  assert (Hw : Z.of_nat j + Z.of_nat k <= 38).
  { eapply width_bound; [|exact Hlow|exact Hu]. lia. }
  unfold parse_mantissa.
  rewrite accum_fixdigits_stop by (lia || apply is_digit_dot).
  cbv beta iota. rewrite N.eqb_refl.
  rewrite accum_fixdigits_nil by lia. cbv beta iota.
  replace (0 * 10 ^ Z.of_nat (S j) + i) with i by lia.
  apply pm_check_ok; [nia|lia|].
  intros E.
  replace 38 with (Z.of_nat j + Z.of_nat k) by lia. exact Hlow.
Qed.

(** * The text after the sign *)

Definition dec_body (a nfd : Z) : ustring :=
  if nfd =? 0 then nat_digits a
  else nat_digits (a / ten_pow nfd) ++ [ch_dot]
       ++ fixdigits (Z.to_nat nfd) (a mod ten_pow nfd).

Lemma dec_to_string_body d :
  dec_to_string d
  = (if d_coeff d >=? 0 then [] else [ch_minus]) ++ dec_body (Z.abs (d_coeff d)) (d_nfd d).
Proof.
  unfold dec_to_string, dec_body. destruct (d_nfd d =? 0); reflexivity.
Qed.

(** the body starts with a digit *)
Lemma dec_body_head a nfd :
  0 <= a -> 0 <= nfd ->
  exists q s, 0 <= q <= 9 /\ dec_body a nfd = digit_char q :: s.
Proof.
  intros Ha Hn.
  assert (Hnd : forall x, 0 <= x -> exists q s, 0 <= q <= 9 /\ nat_digits x = digit_char q :: s).
  { intros x Hx. destruct (Z.eq_dec x 0) as [->|Hx0].
    - exists 0, []. split; [lia|reflexivity].
    - destruct (nat_digits_pos x ltac:(lia)) as (j & Hr & E).
      rewrite E, fixdigits_S. eexists _, _. split; [|reflexivity].
      apply head_digit_range; lia. }
  unfold dec_body. destruct (nfd =? 0).
  - apply Hnd; assumption.
  - assert (Hp := pow10_pos nfd Hn).
    destruct (Hnd (a / ten_pow nfd)) as (q & s & Hq & E).
    { apply Z.div_pos; unfold ten_pow; lia. }
    rewrite E. cbn [app]. eauto.
Qed.

(** [str_to_dec_unsigned] once the leading zeros are gone *)
Definition stdu_finish (neg : bool) (s2 : ustring) : option (Z * Z) :=
  match parse_mantissa s2 with
  | None => None
  | Some (coeff, n_frac, s4) =>
      match parse_exp s4 with
      | None => None
      | Some e =>
          let e := e - n_frac in
          if - e >? max_nfd then None
          else Some (if neg then - coeff else coeff, e)
      end
  end.

Lemma stdu_nonempty neg s1 :
  s1 <> [] -> skip_zeros s1 <> [] ->
  str_to_dec_unsigned neg s1 = stdu_finish neg (skip_zeros s1).
Proof.
  intros H1 H2. unfold str_to_dec_unsigned.
  destruct s1 as [|c s1]; [congruence|].
  destruct (skip_zeros (c :: s1)) as [|c' s2]; [congruence|reflexivity].
Qed.

Lemma stdu_finish_plain neg s2 c (k : nat) :
  parse_mantissa s2 = Some (c, Z.of_nat k, []) -> (k <= 18)%nat ->
  stdu_finish neg s2 = Some (if neg then - c else c, - Z.of_nat k).
Proof.
  intros E Hk. unfold stdu_finish. rewrite E. cbn [parse_exp]. cbv zeta.
  unfold max_nfd.
  destruct (Z.gtb_spec (- (0 - Z.of_nat k)) 18); [lia|].
  replace (0 - Z.of_nat k) with (- Z.of_nat k) by lia. reflexivity.
Qed.

Lemma unsigned_roundtrip (neg : bool) a nfd :
  0 <= a <= i128_max -> 0 <= nfd <= 18 ->
  str_to_dec_unsigned neg (dec_body a nfd)
  = Some (if neg then - a else a, - nfd).
Proof.
  intros Ha Hn. unfold dec_body.
  destruct (Z.eqb_spec nfd 0) as [->|Hn0].
  - (* integer *)
    destruct (Z.eq_dec a 0) as [->|Ha0].
    + rewrite nat_digits_zero. destruct neg; reflexivity.
    + destruct (nat_digits_pos a ltac:(lia)) as (j & Hr & E).
      rewrite E.
      assert (Es : skip_zeros (fixdigits (S j) a) = fixdigits (S j) a).
      { unfold skip_zeros. rewrite <- (app_nil_r (fixdigits (S j) a)).
        apply strip_lead; assumption. }
      rewrite stdu_nonempty;
        [rewrite Es | rewrite fixdigits_S; discriminate | rewrite Es, fixdigits_S; discriminate].
      apply (stdu_finish_plain neg _ a 0%nat); [|lia].
      apply pm_int; [assumption|lia].
  - (* with fractional digits *)
    unfold ten_pow.
    set (k := Z.to_nat nfd).
    assert (Ek : nfd = Z.of_nat k) by (unfold k; lia).
    rewrite Ek in *. clearbody k. clear Ek.
    assert (Hp := pow10_pos (Z.of_nat k) ltac:(lia)).
    assert (Hf := Z.mod_pos_bound a (10 ^ Z.of_nat k) Hp).
    assert (Ed := Z.div_mod a (10 ^ Z.of_nat k) ltac:(lia)).
    assert (Hi : 0 <= a / 10 ^ Z.of_nat k) by (apply Z.div_pos; lia).
    destruct (Z.eq_dec (a / 10 ^ Z.of_nat k) 0) as [Ei0|Ei0].
    + (* |value| < 1: the integral "0" is skipped *)
      rewrite Ei0, nat_digits_zero.
      assert (Ea : a mod 10 ^ Z.of_nat k = a) by lia.
      rewrite Ea in *.
      assert (Es : skip_zeros ([48%N] ++ [ch_dot] ++ fixdigits k a) = ch_dot :: fixdigits k a)
        by reflexivity.
      rewrite stdu_nonempty; [rewrite Es | discriminate | rewrite Es; discriminate].
      apply stdu_finish_plain; [|lia].
      apply pm_frac0; lia.
    + destruct (nat_digits_pos (a / 10 ^ Z.of_nat k) ltac:(lia)) as (j & Hr & E).
      rewrite E.
      set (i := a / 10 ^ Z.of_nat k) in *. set (f := a mod 10 ^ Z.of_nat k) in *.
      assert (Es : skip_zeros (fixdigits (S j) i ++ [ch_dot] ++ fixdigits k f)
                   = fixdigits (S j) i ++ [ch_dot] ++ fixdigits k f)
        by (apply strip_lead; assumption).
      rewrite stdu_nonempty;
        [rewrite Es | rewrite fixdigits_S; discriminate | rewrite Es, fixdigits_S; discriminate].
      rewrite (stdu_finish_plain neg _ (i * 10 ^ Z.of_nat k + f) k);
        [|apply pm_frac; lia|lia].
      replace (i * 10 ^ Z.of_nat k + f) with a by lia. reflexivity.
Qed.

(** * [dec_of_coeff_exp] on the parser's answer *)

Lemma dec_of_coeff_exp_back c nfd :
  0 <= nfd <= 18 -> Z.abs c <= i128_max ->
  dec_of_coeff_exp (c, - nfd) = Some (mkdec c nfd).
Proof.
  intros Hn Hc. unfold dec_of_coeff_exp, max_nfd.
  destruct (Z.gtb_spec (- - nfd) 18); [lia|].
  destruct (Z.gtb_spec (- nfd) 38); [lia|].
  destruct (Z.ltb_spec (- nfd) 0).
  - rewrite Z.opp_involutive. reflexivity.
  - assert (nfd = 0) as -> by lia.
    change (- 0) with 0.
    unfold checked_mul_pow_ten, ten_pow.
    change (0 >? 38) with false. cbv iota.
    change (10 ^ 0) with 1. rewrite Z.mul_1_r.
    unfold chk, in_i128, i128_min.
    unfold i128_max in Hc.
    destruct (Z.leb_spec (- 2 ^ 127) c); [|lia].
    destruct (Z.leb_spec c i128_max); [|unfold i128_max in *; lia].
    reflexivity.
Qed.

(** * The round trip *)

Theorem dec_string_roundtrip (d : dec) :
  0 <= d_nfd d <= 18 -> Z.abs (d_coeff d) <= i128_max ->
  dec_from_str (dec_to_string d) = Some d.
Proof.
  destruct d as [c nfd]. cbn [d_coeff d_nfd]. intros Hn Hc.
  unfold dec_from_str. rewrite dec_to_string_body. cbn [d_coeff d_nfd].
  assert (Hs : str_to_dec ((if c >=? 0 then [] else [ch_minus]) ++ dec_body (Z.abs c) nfd)
               = Some (c, - nfd)).
  { destruct (Z.geb_spec c 0) as [Hpos|Hneg].
    - cbn [app].
      destruct (dec_body_head (Z.abs c) nfd ltac:(lia) ltac:(lia)) as (q & s & Hq & E).
      unfold str_to_dec. rewrite E.
      rewrite !digit_char_neq by (assumption || (unfold ch_minus, ch_plus; lia)).
      rewrite <- E.
      rewrite (unsigned_roundtrip false) by lia.
      f_equal. f_equal. lia.
    - cbn [app]. unfold str_to_dec.
      rewrite N.eqb_refl.
      rewrite (unsigned_roundtrip true) by lia.
      f_equal. f_equal. lia. }
  rewrite Hs. apply dec_of_coeff_exp_back; assumption.
Qed.

(** the statement with the explicit zero case (the same thing) *)
Corollary dec_string_roundtrip' (d : dec) :
  0 <= d_nfd d <= 18 -> Z.abs (d_coeff d) <= i128_max ->
  dec_from_str (dec_to_string d)
  = Some (if (d_coeff d =? 0) && (d_nfd d =? 0) then mkdec 0 0 else d).
Proof.
  intros Hn Hc. rewrite dec_string_roundtrip by assumption.
  destruct d as [c n]; cbn [d_coeff d_nfd].
  destruct (Z.eqb_spec c 0) as [->|]; [|reflexivity].
  destruct (Z.eqb_spec n 0) as [->|]; reflexivity.
Qed.

(** every well-formed Decimal except coefficient i128::MIN *)
Corollary dec_string_roundtrip_wf (d : dec) :
  dec_wf d -> d_coeff d <> i128_min ->
  dec_from_str (dec_to_string d) = Some d.
Proof.
  unfold dec_wf, dec_wfb, in_i128, max_nfd, i128_min. intros H Hm.
  rewrite !andb_true_iff, !Z.leb_le in H.
  apply dec_string_roundtrip; [lia|].
  unfold i128_max in *. lia.
Qed.

(** * Shape of the text: optional '-', digits, at most one '.', no exponent *)

Lemma fixdigits_all_digits w : forall n,
  0 <= n < 10 ^ Z.of_nat w -> Forall (fun c => is_digit c = true) (fixdigits w n).
Proof.
  induction w as [|w IH]; intros n H.
  - constructor.
  - rewrite fixdigits_S.
    assert (Hp := pow10_pos (Z.of_nat w) ltac:(lia)).
    constructor.
    + apply digit_char_is_digit, head_digit_range; assumption.
    + apply IH, Z.mod_pos_bound; assumption.
Qed.

Lemma nat_digits_all_digits n :
  0 <= n -> Forall (fun c => is_digit c = true) (nat_digits n).
Proof.
  intros H. destruct (Z.eq_dec n 0) as [->|Hn].
  - rewrite nat_digits_zero. repeat constructor.
  - destruct (nat_digits_pos n ltac:(lia)) as (j & Hr & E).
    rewrite E. apply fixdigits_all_digits; lia.
Qed.

(** the text is [sign ++ int] or [sign ++ int ++ "." ++ frac] with [sign]
    empty or "-", [int] a non-empty digit string and [frac] exactly nfd digits *)
Theorem dec_to_string_shape (d : dec) :
  0 <= d_nfd d ->
  exists sign int frac,
    (sign = [] \/ sign = [ch_minus]) /\
    int <> [] /\
    Forall (fun c => is_digit c = true) int /\
    Forall (fun c => is_digit c = true) frac /\
    length frac = Z.to_nat (d_nfd d) /\
    dec_to_string d
    = sign ++ int ++ (if d_nfd d =? 0 then [] else ch_dot :: frac).
Proof.
  intros Hn. unfold dec_to_string.
  set (a := Z.abs (d_coeff d)). assert (Ha : 0 <= a) by (unfold a; lia).
  assert (Hne : forall x, 0 <= x -> nat_digits x <> []).
  { intros x Hx. destruct (Z.eq_dec x 0) as [->|Hx0].
    - rewrite nat_digits_zero; discriminate.
    - destruct (nat_digits_pos x ltac:(lia)) as (j & _ & E).
      rewrite E, fixdigits_S; discriminate. }
  exists (if d_coeff d >=? 0 then [] else [ch_minus]).
  destruct (Z.eqb_spec (d_nfd d) 0) as [E0|N0].
  - exists (nat_digits a), [].
    split; [destruct (d_coeff d >=? 0); auto|].
    split; [apply Hne; assumption|].
    split; [apply nat_digits_all_digits; assumption|].
    split; [constructor|].
    split; [rewrite E0; reflexivity|].
    rewrite app_nil_r; reflexivity.
  - assert (Hp := pow10_pos (d_nfd d) Hn). unfold ten_pow.
    assert (Hi : 0 <= a / 10 ^ d_nfd d) by (apply Z.div_pos; lia).
    exists (nat_digits (a / 10 ^ d_nfd d)),
           (fixdigits (Z.to_nat (d_nfd d)) (a mod 10 ^ d_nfd d)).
    split; [destruct (d_coeff d >=? 0); auto|].
    split; [apply Hne; assumption|].
    split; [apply nat_digits_all_digits; assumption|].
    split.
    { apply fixdigits_all_digits. rewrite Z2Nat.id by assumption.
      apply Z.mod_pos_bound; assumption. }
    split; [apply length_fixdigits|].
    reflexivity.
Qed.

(** in particular no exponent marker (nor '+') ever appears *)
Corollary dec_to_string_chars (d : dec) (c : N) :
  0 <= d_nfd d -> In c (dec_to_string d) ->
  c = ch_minus \/ c = ch_dot \/ is_digit c = true.
Proof.
  intros Hn Hin.
  destruct (dec_to_string_shape d Hn) as (sign & int & frac & Hs & _ & Hi & Hf & _ & E).
  rewrite E in Hin. rewrite Forall_forall in Hi, Hf.
  apply in_app_or in Hin. destruct Hin as [Hin|Hin].
  - destruct Hs as [->| ->]; [destruct Hin|].
    destruct Hin as [<-|[]]; auto.
  - apply in_app_or in Hin. destruct Hin as [Hin|Hin]; [auto|].
    destruct (d_nfd d =? 0); [destruct Hin|].
    destruct Hin as [<-|Hin]; auto.
Qed.

Corollary dec_to_string_no_exp (d : dec) :
  0 <= d_nfd d ->
  ~ In ch_e (dec_to_string d) /\ ~ In ch_E (dec_to_string d) /\ ~ In ch_plus (dec_to_string d).
Proof.
  intros Hn.
  repeat split; intros Hin;
    destruct (dec_to_string_chars d _ Hn Hin) as [H|[H|H]]; discriminate H.
Qed.

Print Assumptions dec_string_roundtrip.
Print Assumptions dec_to_string_shape.
