(* Amount/DecModel.v — executable Gallina model of the Rust crate
   fpdec 0.11.0 (with fpdec-core 0.8.0 and fpdec-macros 0.8.0): the type
   [Decimal] = i128 coefficient + u8 number of fractional digits (0..=18).

   The model describes what the crate DOES, read off its sources, and is
   checked against the compiled crate by the differential test in
   /verif/tools/dectest (run.py).  Conventions:

   - DEBUG-build semantics: every i128 arithmetic overflow is a panic.  Places
     where a release build (overflow checks off) would silently wrap instead
     are marked "RELEASE:".
   - Inside the crate the helpers return [Option]; the operators [* /] turn
     [None] into a panic.  As only the operators are modelled, helpers return
     [res Z] and [Panic PAmount] stands both for "returned None, the caller
     panics" and for "arithmetic overflow panic".
   - Rounding: every rounding the operators do is [RoundingMode::default()],
     a THREAD-LOCAL setting whose initial value is RoundHalfEven.  The model
     assumes nobody called [RoundingMode::set_default]. *)
From QV Require Import Rt.Prelude.
Local Open Scope Z_scope.

(** * i128 *)
Definition i128_min : Z := - 2 ^ 127.
Definition i128_max : Z := 2 ^ 127 - 1.
Definition in_i128 (z : Z) : bool := (i128_min <=? z) && (z <=? i128_max).

(** [i128::checked_*]: the exact result if representable *)
Definition chk (z : Z) : option Z := if in_i128 z then Some z else None.
(** plain [+ - * neg] on i128 in a debug build; RELEASE: wraps mod 2^128 *)
Definition ovf (z : Z) : res Z := if in_i128 z then Ok z else Panic PAmount.

(** fpdec_core::MAX_N_FRAC_DIGITS *)
Definition max_nfd : Z := 18.

(** fpdec_core::ten_pow (a table lookup, index 0..=38; every call site of the
    modelled code has 0 <= n <= 36) *)
Definition ten_pow (n : Z) : Z := 10 ^ n.

(** fpdec_core::checked_mul_pow_ten: [val.checked_mul(checked_ten_pow(n)?)] *)
Definition checked_mul_pow_ten (v n : Z) : option Z :=
  if n >? 38 then None else chk (v * ten_pow n).

(** fpdec_core::mul_pow_ten: [val * ten_pow(n)], plain multiplication.
    RELEASE: wraps. *)
Definition mul_pow_ten (v n : Z) : res Z := ovf (v * ten_pow n).

(** * The type *)
Record dec := mkdec { d_coeff : Z; d_nfd : Z }.

Definition dec_wfb (d : dec) : bool :=
  (0 <=? d_nfd d) && (d_nfd d <=? max_nfd) && in_i128 (d_coeff d).
Definition dec_wf (d : dec) : Prop := dec_wfb d = true.

(** Decimal::ZERO, Decimal::ONE *)
Definition dec_zero : dec := mkdec 0 0.
Definition dec_one : dec := mkdec 1 0.

(** Decimal::eq_zero (binops/cmp.rs, impl_basics) *)
Definition dec_eq_zero (d : dec) : bool := d_coeff d =? 0.
(** Decimal::eq_one: [self.coeff == ten_pow(self.n_frac_digits)] *)
Definition dec_eq_one (d : dec) : bool := d_coeff d =? ten_pow (d_nfd d).

(** * Rounding helpers (fpdec-core/src/rounding.rs) *)

(** rounding::round_quot, mode = RoundHalfEven (see the header).
    Pre-condition in the source: 0 < divisor and rem <= divisor ([rem] may be
    EQUAL to the divisor, see [i128_shifted_div_rounded]).  [quot % 2 != 0] is
    "quot is odd" also for negative quot.  [quot + 1] is a plain addition:
    RELEASE: wraps when quot = i128::MAX. *)
Definition round_quot (quot rem divisor : Z) : res Z :=
  if rem =? 0 then Ok quot
  else if (2 * rem >? divisor) || ((2 * rem =? divisor) && negb (Z.even quot))
       then ovf (quot + 1)
       else Ok quot.

(** [if divisor < 0 { divident = -divident; divisor = -divisor; }], the common
    prologue of i128_div_rounded / i128_shifted_div_rounded.  Both negations are
    plain: they panic on i128::MIN.  RELEASE: -MIN wraps to MIN, so the result
    is wrong rather than a panic. *)
Definition flip_signs (n d : Z) : res (Z * Z) :=
  if d <? 0 then do n' <- ovf (- n); do d' <- ovf (- d); Ok (n', d')
  else Ok (n, d).

(** rounding::i128_div_rounded(divident, divisor, None).
    lib.rs::i128_div_mod_floor with a positive divisor is Coq's [Z.div]/[Z.modulo].
    A zero divisor would be an unconditional "division by zero" panic; no
    modelled call site passes one. *)
Definition i128_div_rounded (n d : Z) : res Z :=
  if d =? 0 then Panic PAmount else
  do nd <- flip_signs n d;
  let '(n', d') := nd in
  round_quot (n' / d') (n' mod d') d'.

(** rounding::i128_shifted_div_rounded(divident, p, divisor, None)
    = round((divident * 10^p) / divisor), via lib.rs::i128_shifted_div_mod_floor,
    which works on |x| * 10^p as a 256-bit number, returns None when the
    TRUNCATED magnitude of the quotient exceeds i128::MAX, and for x < 0 returns
    (q, r) = (-|q| - 1, y - |r|) — also when |r| = 0, in which case r = y and
    [round_quot] adds the 1 back. *)
Definition i128_shifted_div_rounded (n p d : Z) : res Z :=
  if d =? 0 then Panic PAmount else
  do nd <- flip_signs n d;
  let '(n', d') := nd in
  let m := Z.abs n' * ten_pow p in
  let aq := m / d' in
  let ar := m mod d' in
  if aq >? i128_max then Panic PAmount else
  if n' <? 0 then round_quot (- aq - 1) (d' - ar) d'
  else round_quot aq ar d'.

(** rounding::i128_mul_div_ten_pow_rounded(x, y, p, None)
    = round((x * y) / 10^p), via lib.rs::i256_div_mod_floor (same scheme). *)
Definition i128_mul_div_ten_pow_rounded (x y p : Z) : res Z :=
  let d := ten_pow p in
  let m := Z.abs x * Z.abs y in
  let aq := m / d in
  let ar := m mod d in
  if aq >? i128_max then Panic PAmount else
  if negb (Bool.eqb (x <? 0) (y <? 0)) then round_quot (- aq - 1) (d - ar) d
  else round_quot aq ar d.

(** * Addition, subtraction (binops/add_sub.rs, macro impl_add_sub_decimal).
    NOT the checked variants: plain [+]/[-] on the coefficients after
    [mul_pow_ten] (plain [*]) of the operand with fewer fractional digits.
    RELEASE: all three wrap silently.  The result has max(nfd x, nfd y)
    fractional digits, no normalisation. *)
Definition dec_addsub (op : Z -> Z -> Z) (x y : dec) : res dec :=
  match d_nfd x ?= d_nfd y with
  | Eq => do c <- ovf (op (d_coeff x) (d_coeff y)); Ok (mkdec c (d_nfd x))
  | Gt => do t <- mul_pow_ten (d_coeff y) (d_nfd x - d_nfd y);
          do c <- ovf (op (d_coeff x) t); Ok (mkdec c (d_nfd x))
  | Lt => do t <- mul_pow_ten (d_coeff x) (d_nfd y - d_nfd x);
          do c <- ovf (op t (d_coeff y)); Ok (mkdec c (d_nfd y))
  end.

(** <Decimal as Add>::add *)
Definition dec_add (x y : dec) : res dec := dec_addsub Z.add x y.
(** <Decimal as Sub>::sub *)
Definition dec_sub (x y : dec) : res dec := dec_addsub Z.sub x y.

(** * Multiplication *)

(** binops/mul_rounded.rs::checked_mul_rounded(x, y, n_frac_digits) *)
Definition checked_mul_rounded (x y : dec) (n : Z) : res dec :=
  let m := d_nfd x + d_nfd y in
  if n >=? m then
    match chk (d_coeff x * d_coeff y) with
    | Some c => Ok (mkdec c m)
    | None => Panic PAmount
    end
  else
    let shift := m - n in
    match chk (d_coeff x * d_coeff y) with
    | Some c => do r <- i128_div_rounded c (ten_pow shift); Ok (mkdec r n)
    | None => do r <- i128_mul_div_ten_pow_rounded (d_coeff x) (d_coeff y) shift;
              Ok (mkdec r n)
    end.

(** <Decimal as Mul>::mul (binops/mul.rs): shortcuts for zero (result is
    Decimal::ZERO, i.e. nfd 0) and one (the OTHER operand unchanged, whatever
    its nfd), then checked_mul_rounded(.., MAX_N_FRAC_DIGITS), panic on None. *)
Definition dec_mul (x y : dec) : res dec :=
  if dec_eq_zero x || dec_eq_zero y then Ok dec_zero
  else if dec_eq_one y then Ok x
  else if dec_eq_one x then Ok y
  else checked_mul_rounded x y max_nfd.

(** * Division *)

(** binops/div_rounded.rs::checked_div_rounded.  With n = 18 (the only value
    [/] uses) the [Greater] branch is unreachable (nfd x <= 18 <= 18 + nfd y);
    it is modelled anyway: it truncates [divident / divisor] (Rust [/]) before
    rounding. *)
Definition checked_div_rounded (cx p cy q n : Z) : res Z :=
  let shift := n + q in
  match p ?= shift with
  | Eq => i128_div_rounded cx cy
  | Lt =>
      let s := shift - p in
      match checked_mul_pow_ten cx s with
      | Some sd => i128_div_rounded sd cy
      | None => i128_shifted_div_rounded cx s cy
      end
  | Gt =>
      let s := p - shift in
      if cy =? 0 then Panic PAmount else
      do t <- ovf (Z.quot cx cy);
      i128_div_rounded t (ten_pow s)
  end.

(** lib.rs::normalize: a zero coefficient gets nfd 0, otherwise trailing zeros
    of the coefficient are removed while nfd > 0 *)
Fixpoint normalize_loop (fuel : nat) (c n : Z) : Z * Z :=
  match fuel with
  | O => (c, n)
  | S f => if (c mod 10 =? 0) && (0 <? n) then normalize_loop f (c / 10) (n - 1)
           else (c, n)
  end.
Definition normalize (c n : Z) : dec :=
  if c =? 0 then mkdec 0 0
  else let '(c', n') := normalize_loop (Z.to_nat n) c n in mkdec c' n'.

(** <Decimal as Div>::div (binops/div.rs): zero divisor panics; zero dividend
    gives Decimal::ZERO; divisor "one" (coeff = 10^nfd) returns the dividend
    unchanged; otherwise the quotient rounded to 18 fractional digits and then
    NORMALISED (so e.g. 6/3 = (2, 0), 1/3 = (333333333333333333, 18)). *)
Definition dec_div (x y : dec) : res dec :=
  if dec_eq_zero y then Panic PAmount
  else if dec_eq_zero x then Ok dec_zero
  else if dec_eq_one y then Ok x
  else do c <- checked_div_rounded (d_coeff x) (d_nfd x) (d_coeff y) (d_nfd y) max_nfd;
       Ok (normalize c max_nfd).

(** * Unary operators (unops.rs) *)

(** <Decimal as Neg>::neg: [coeff: -self.coeff], a plain negation.  It PANICS
    for coeff = i128::MIN (RELEASE: returns the operand unchanged); [dec_neg]
    is the total function on unbounded integers, whose result is then not
    [dec_wf]; [dec_neg_res] is the faithful one. *)
Definition dec_neg (x : dec) : dec := mkdec (- d_coeff x) (d_nfd x).
Definition dec_neg_res (x : dec) : res dec :=
  do c <- ovf (- d_coeff x); Ok (mkdec c (d_nfd x)).

(** Decimal::abs: [self.coefficient().abs()]; i128::abs PANICS for i128::MIN
    in a debug build (RELEASE: returns MIN). *)
Definition dec_abs (x : dec) : dec := mkdec (Z.abs (d_coeff x)) (d_nfd x).
Definition dec_abs_res (x : dec) : res dec :=
  do c <- ovf (Z.abs (d_coeff x)); Ok (mkdec c (d_nfd x)).

(** * Comparison (binops/cmp.rs) *)

(** fpdec_core::checked_adjust_coeffs *)
Definition checked_adjust_coeffs (x p y q : Z) : option Z * option Z :=
  match p ?= q with
  | Eq => (Some x, Some y)
  | Gt => (Some x, checked_mul_pow_ten y (p - q))
  | Lt => (checked_mul_pow_ten x (q - p), Some y)
  end.

(** <Decimal as PartialEq>::eq: an operand whose adjusted coefficient does not
    fit i128 compares unequal (which is value-exact: the other one fits) *)
Definition dec_eqb (x y : dec) : bool :=
  match checked_adjust_coeffs (d_coeff x) (d_nfd x) (d_coeff y) (d_nfd y) with
  | (Some a, Some b) => a =? b
  | _ => false
  end.

(** <Decimal as PartialOrd>::partial_cmp; the (None, None) case cannot occur
    (the source returns None there; the model says Eq) *)
Definition dec_cmp (x y : dec) : comparison :=
  match checked_adjust_coeffs (d_coeff x) (d_nfd x) (d_coeff y) (d_nfd y) with
  | (Some a, Some b) => a ?= b
  | (None, Some _) => if d_coeff x >? 0 then Gt else Lt
  | (Some _, None) => if d_coeff y <? 0 then Gt else Lt
  | (None, None) => Eq
  end.

(** * Decimal digits *)

(** the [w]-digit representation of [n] (for 0 <= n < 10^w), most significant
    digit first; 48 = '0'.  This is what [{:0w$}] prints for such an n. *)
Fixpoint fixdigits (w : nat) (n : Z) : ustring :=
  match w with
  | O => []
  | S w' => Z.to_N (48 + n / 10 ^ Z.of_nat w') :: fixdigits w' (n mod 10 ^ Z.of_nat w')
  end.

Fixpoint strip_zeros (s : ustring) : ustring :=
  match s with
  | c :: s' => if (c =? 48)%N then strip_zeros s' else s
  | [] => []
  end.

(** [format!("{}", n)] for a non-negative integer: no leading zeros, "0" for 0 *)
Definition nat_digits (n : Z) : ustring :=
  match strip_zeros (fixdigits (S (Z.to_nat (Z.log2 n))) n) with
  | [] => [48%N]
  | s => s
  end.

Definition ch_minus : N := 45.  Definition ch_plus : N := 43.
Definition ch_dot : N := 46.    Definition ch_e : N := 101.  Definition ch_E : N := 69.

(** * To string (format.rs) *)

(** <String as From<Decimal>>::from — also what serde-as-str serialises
    ([serde(into = "String")]).  For nfd > 0 it takes [d.coeff.abs()], which
    PANICS for coeff = i128::MIN (RELEASE: prints garbage "--1701..."): see
    [dec_to_string_res].  For nfd = 0 it is [format!("{}", coeff)]. *)
Definition dec_to_string (d : dec) : ustring :=
  let sign := if d_coeff d >=? 0 then [] else [ch_minus] in
  let a := Z.abs (d_coeff d) in
  if d_nfd d =? 0 then sign ++ nat_digits a
  else
    let t := ten_pow (d_nfd d) in
    sign ++ nat_digits (a / t) ++ [ch_dot] ++ fixdigits (Z.to_nat (d_nfd d)) (a mod t).

Definition dec_to_string_res (d : dec) : res ustring :=
  if negb (d_nfd d =? 0) && negb (in_i128 (Z.abs (d_coeff d))) then Panic PAmount
  else Ok (dec_to_string d).

(** <Decimal as Display>::fmt: the arguments (is_nonnegative, text) of the final
    [form.pad_integral(self.coeff >= 0, "", &tmp)].  The sign flag is that of
    the UNROUNDED coefficient, so -0.004 with precision 2 gives (false, "0.00").
    All branches except "precision < nfd" take [self.coeff.abs()] and panic for
    coeff = i128::MIN, see [dec_display_parts_res]. *)
Definition dec_display_parts (prec : option N) (d : dec) : bool * ustring :=
  let nfd := d_nfd d in
  let c := d_coeff d in
  let p := match prec with Some p => Z.min (Z.of_N p) max_nfd | None => nfd end in
  let text :=
    if nfd =? 0 then
      if p >? 0 then nat_digits (Z.abs c) ++ [ch_dot] ++ fixdigits (Z.to_nat p) 0
      else nat_digits (Z.abs c)
    else
      let '(int, frac) :=
        match p ?= nfd with
        | Eq => (Z.abs c / ten_pow nfd, Z.abs c mod ten_pow nfd)
        | Lt =>
            let c' := match i128_div_rounded c (ten_pow (nfd - p)) with
                      | Ok r => r | Panic _ => 0 (* divisor > 0: no panic *) end in
            (Z.abs c' / ten_pow p, Z.abs c' mod ten_pow p)
        | Gt => (Z.abs c / ten_pow nfd, (Z.abs c mod ten_pow nfd) * ten_pow (p - nfd))
        end in
      if p >? 0 then nat_digits int ++ [ch_dot] ++ fixdigits (Z.to_nat p) frac
      else nat_digits int in
  (c >=? 0, text).

Definition dec_display_parts_res (prec : option N) (d : dec) : res (bool * ustring) :=
  let nfd := d_nfd d in
  let p := match prec with Some p => Z.min (Z.of_N p) max_nfd | None => nfd end in
  if negb (in_i128 (Z.abs (d_coeff d))) && ((nfd =? 0) || (p >=? nfd)) then Panic PAmount
  else Ok (dec_display_parts prec d).

(** * From string (fpdec-core/src/parser.rs, src/from_str.rs) *)

Definition is_digit (c : N) : bool := (48 <=? c)%N && (c <=? 57)%N.

(** AsciiDecLit::skip_leading_zeroes *)
Definition skip_zeros : ustring -> ustring := strip_zeros.

(** AsciiDecLit::accum_coeff: consumes the leading digits, accumulating them
    into [acc]; returns (accumulator, number of digits consumed, rest).  The
    source accumulates in a u128 with WRAPPING arithmetic (8 digits at a time
    where possible, which gives the same value); the model accumulates exactly
    and [str_to_dec] reduces modulo 2^128 afterwards, which is the same thing. *)
Fixpoint accum_digits (s : ustring) (acc cnt : Z) : Z * Z * ustring :=
  match s with
  | c :: s' => if is_digit c then accum_digits s' (acc * 10 + (Z.of_N c - 48)) (cnt + 1)
               else (acc, cnt, s)
  | [] => (acc, cnt, [])
  end.

(** AsciiDecLit::accum_exp: like accum_coeff but stops accumulating (not
    consuming) once the value reached 0x1000000 *)
Fixpoint accum_exp (s : ustring) (acc cnt : Z) : Z * Z * ustring :=
  match s with
  | c :: s' => if is_digit c
               then accum_exp s' (if acc <? 16777216 then acc * 10 + (Z.of_N c - 48) else acc) (cnt + 1)
               else (acc, cnt, s)
  | [] => (acc, cnt, [])
  end.

(** the exponent part of str_to_dec: [s] is what follows the digits.
    Note that "e+" / "e-" without digits are accepted as exponent 0, while a
    bare "e" is invalid. *)
Definition parse_exp (s : ustring) : option Z :=
  match s with
  | [] => Some 0
  | c :: s1 =>
      if (c =? ch_e)%N || (c =? ch_E)%N then
        match s1 with
        | [] => None
        | c1 :: s2 =>
            let '(eneg, s3) := if (c1 =? ch_minus)%N then (true, s2)
                               else if (c1 =? ch_plus)%N then (false, s2)
                               else (false, s1) in
            let '(e, n_exp_digits, s4) := accum_exp s3 0 0 in
            let e := if eneg then - e else e in
            if n_exp_digits >? 2 then None
            else match s4 with [] => Some e | _ => None end
        end
      else None
  end.

(** str_to_dec, the part that reads the digits (after sign and leading
    zeros): integral digits, optional '.', fractional digits, then the
    overflow tests.  Returns (coefficient, number of fractional digits, rest).
    The overflow test for 39-digit inputs is incomplete: it rejects a wrapped
    accumulator below 10^38 or above i128::MAX, but a 39-digit number >= 2^128
    whose residue modulo 2^128 lies in [10^38, 2^127) is ACCEPTED with that
    residue as its value, e.g. "460282366920938463463374607431768211456"
    (= 2^128 + 12 * 10^37) parses as 12 * 10^37. *)
Definition parse_mantissa (s2 : ustring) : option (Z * Z * ustring) :=
  let '(c1, n_int, s3) := accum_digits s2 0 0 in
  let '(c2, n_frac, s4) :=
    match s3 with
    | d :: s3' => if (d =? ch_dot)%N then accum_digits s3' c1 0 else (c1, 0, s3)
    | [] => (c1, 0, s3)
    end in
  let n_digits := n_int + n_frac in
  if n_digits =? 0 then None else
  let coeff := c2 mod 2 ^ 128 in
  if (n_digits >? 39) || ((n_digits =? 39) && (coeff <? 10 ^ 38))
     || (coeff >? i128_max) then None
  else Some (coeff, n_frac, s4).

(** str_to_dec after the optional sign.  Quirks reproduced: a string of
    zeros only gives (0, 0) whatever the sign; because leading zeros are skipped
    first, "0." and "0e5" are invalid (no digit left) while "0.0" is fine. *)
Definition str_to_dec_unsigned (neg : bool) (s1 : ustring) : option (Z * Z) :=
  match s1 with
  | [] => None
  | _ =>
      match skip_zeros s1 with
      | [] => Some (0, 0)
      | s2 =>
          match parse_mantissa s2 with
          | None => None
          | Some (coeff, n_frac, s4) =>
              match parse_exp s4 with
              | None => None
              | Some e =>
                  let e := e - n_frac in
                  if - e >? max_nfd then None
                  else Some (if neg then - coeff else coeff, e)
              end
          end
      end
  end.

(** fpdec_core::str_to_dec: (coefficient, exponent) or None for any error *)
Definition str_to_dec (s : ustring) : option (Z * Z) :=
  match s with
  | [] => None
  | c :: s' =>
      if (c =? ch_minus)%N then str_to_dec_unsigned true s'
      else if (c =? ch_plus)%N then str_to_dec_unsigned false s'
      else str_to_dec_unsigned false s
  end.

(** what both [Decimal::from_str] and the [Dec!] macro do with the result of
    str_to_dec *)
Definition dec_of_coeff_exp (ce : Z * Z) : option dec :=
  let '(coeff, e) := ce in
  if - e >? max_nfd then None
  else if e >? 38 then None
  else if e <? 0 then Some (mkdec coeff (- e))
  else match checked_mul_pow_ten coeff e with
       | Some c => Some (mkdec c 0)
       | None => None
       end.

(** <Decimal as FromStr>::from_str = TryFrom<String> (serde-as-str reads with
    [serde(try_from = "String")]).  The string is a list of code points; Rust
    works on the UTF-8 bytes, and every byte of a non-ASCII character is
    >= 0x80, hence matches nothing, exactly like the code point itself here. *)
Definition dec_from_str (s : ustring) : option dec :=
  match str_to_dec s with
  | None => None
  | Some ce => dec_of_coeff_exp ce
  end.

(** * The [Dec!] macro (fpdec-macros/src/lib.rs): [str_to_dec] on the literal's
    source text, then as from_str; any error is a compile-time panic = None.

    The text is reconstructed from the [lit] record in its canonical spelling:
    an integer literal is its digits; a literal with l_exp < 0 is written with
    a decimal point and -l_exp fractional digits and no exponent ("0.0254",
    "1.0", "0.00"); a non-integer literal with l_exp >= 0 is "<digits>." or
    "<digits>e<exp>".  Only the digits and the exponent influence str_to_dec,
    EXCEPT when all digits are zero: "0" and "0.00" are accepted but "0." and
    "0e3" are rejected ("no digits" after skipping leading zeros), whereas the
    exotic spelling "0.0e1" — also digits 0, exponent 0, not an integer — would
    be accepted; the record cannot tell these apart and the model follows the
    canonical spelling (None).  The number of digits that str_to_dec counts is
    max(number of digits of l_digits, -l_exp): leading zeros of the integral part
    are skipped, those of the fractional part are counted.  Exponents with
    more than two digits are rejected by the parser. *)
(** number of decimal digits of n > 0, 0 for n <= 0 *)
Fixpoint ndigits_fuel (fuel : nat) (n : Z) : Z :=
  match fuel with
  | O => 0
  | S f => if n <=? 0 then 0 else 1 + ndigits_fuel f (n / 10)
  end.
Definition ndigits (n : Z) : Z := ndigits_fuel (S (Z.to_nat (Z.log2 n))) n.

Definition dec_of_lit (l : lit) : option dec :=
  let D := l_digits l in
  let E := l_exp l in
  if D <? 0 then None else
  if D =? 0 then
    if l_is_int l then Some (mkdec 0 0)               (* "0": Ok((0, 0)) early exit *)
    else if E <? 0 then (if - E >? max_nfd then None else Some (mkdec 0 (- E)))  (* "0.00" *)
    else None                                          (* "0." / "0e3": Invalid *)
  else
    let n_digits := Z.max (ndigits D) (if E <? 0 then - E else 0) in
    let coeff := D mod 2 ^ 128 in
    if (n_digits >? 39) || ((n_digits =? 39) && (coeff <? 10 ^ 38))
       || (coeff >? i128_max) then None else
    if (0 <=? E) && (E >? 99) then None else           (* more than 2 exponent digits *)
    if - E >? max_nfd then None else
    dec_of_coeff_exp (if l_neg l then - coeff else coeff, E).
