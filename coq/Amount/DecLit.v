(* Amount/DecLit.v — what the [Dec!] macro model [dec_of_lit] (Amount/DecModel.v)
   makes of a literal: an ACCEPTED literal is represented EXACTLY, with one
   exception inherited from fpdec's parser: the coefficient is accumulated in
   a u128 with wrapping arithmetic and the overflow test for 39-digit inputs
   is incomplete, so a 39-digit literal >= 2^128 whose residue modulo 2^128
   lies in [10^38, 2^127) is accepted WITH THAT RESIDUE as its digits.

   Contents
   - [ndigits_spec]            the digit counter counts decimal digits
   - [lit_accepted], [lit_rejected], [lit_dec]
                               acceptance condition, the documented reasons of
                               rejection, and the decimal an accepted literal
                               denotes (coefficient and number of fractional
                               digits as functions of the literal)
   - [dec_of_lit_spec]         dec_of_lit l = Some d <-> accepted /\ d = lit_dec l
   - [dec_of_lit_none]         dec_of_lit l = None <-> lit_rejected l
   - [dec_of_lit_exact]        the integer statement, for digits < 2^128
   - [dec_of_lit_exact_Q]      coeff * den = num * 10^nfd  (lit_Q_num_den)
   - [dec_of_lit_exact_iff]    accepted literal exact <-> digits < 2^128
   - [dec_of_lit_wraps]        a concrete literal that is accepted with the
                               wrong value
   - [dec_of_lit_dval], [dec_of_lit_dval_mod], [dec_of_lit_ok]
                               the same over the reals
   - [dec_of_lit_accepts], [dec_of_lit_accepts_exp]
                               sufficient conditions for acceptance *)
From Coq Require Import ZArith Lia Bool Reals Lra.
From QV Require Import Rt.Prelude Amount.DecModel Amount.Laws Amount.DecAcc.
Local Open Scope Z_scope.

(** * [ndigits] counts decimal digits *)

Lemma ndigits_fuel_zero f : ndigits_fuel f 0 = 0.
Proof. destruct f; reflexivity. Qed.

Lemma ndigits_fuel_spec fuel : forall n, 0 < n < 2 ^ Z.of_nat fuel ->
  1 <= ndigits_fuel fuel n /\
  10 ^ (ndigits_fuel fuel n - 1) <= n < 10 ^ ndigits_fuel fuel n.
Proof.
  induction fuel as [|f IH]; intros n Hn.
  - change (2 ^ Z.of_nat 0) with 1 in Hn. lia.
  - cbn [ndigits_fuel]. destruct (Z.leb_spec n 0) as [|Hpos]; [lia|].
    rewrite Nat2Z.inj_succ, Z.pow_succ_r in Hn by lia.
    destruct (Z.eq_dec (n / 10) 0) as [E0|N0].
    + rewrite E0, ndigits_fuel_zero.
      replace (1 + 0 - 1) with 0 by lia. replace (1 + 0) with 1 by lia.
      rewrite Z.pow_0_r, Z.pow_1_r.
      assert (n < 10) by (apply Z.div_small_iff in E0; lia). lia.
    + assert (Hq : 0 < n / 10 < 2 ^ Z.of_nat f).
      { pose proof (Z.div_mod n 10 ltac:(lia)) as Hd.
        pose proof (Z.mod_pos_bound n 10 ltac:(lia)) as Hm.
        assert (0 <= n / 10) by (apply Z.div_pos; lia). lia. }
      destruct (IH _ Hq) as [H1 [Hlo Hhi]].
      set (k := ndigits_fuel f (n / 10)) in *.
      replace (1 + k - 1) with (Z.succ (k - 1)) by lia.
      replace (1 + k) with (Z.succ k) by lia.
      rewrite !Z.pow_succ_r by lia.
      pose proof (Z.div_mod n 10 ltac:(lia)) as Hd.
      pose proof (Z.mod_pos_bound n 10 ltac:(lia)) as Hm.
      lia.
Qed.

Lemma ndigits_spec n : 0 < n ->
  1 <= ndigits n /\ 10 ^ (ndigits n - 1) <= n < 10 ^ ndigits n.
Proof.
  intros Hn. unfold ndigits. apply ndigits_fuel_spec.
  pose proof (Z.log2_nonneg n) as H0.
  rewrite Nat2Z.inj_succ, Z2Nat.id by assumption.
  pose proof (Z.log2_spec n Hn). lia.
Qed.

(** more than k digits <-> at least 10^k *)
Lemma ndigits_gt_iff n k : 0 < n -> 0 <= k -> (k < ndigits n <-> 10 ^ k <= n).
Proof.
  intros Hn Hk. destruct (ndigits_spec n Hn) as [H1 [Hlo Hhi]]. split; intros H.
  - apply Z.le_trans with (10 ^ (ndigits n - 1)); [|assumption].
    apply Z.pow_le_mono_r; lia.
  - apply (Z.pow_lt_mono_r_iff 10); lia.
Qed.

(** * The decimal an accepted literal denotes *)

(** the digits as the parser's wrapping u128 accumulator sees them *)
Definition lit_mag (l : lit) : Z := l_digits l mod 2 ^ 128.
Definition lit_sign (l : lit) : Z := if l_neg l then -1 else 1.
Definition lit_sgn (l : lit) : Z := lit_sign l * lit_mag l.

(** coefficient and number of fractional digits of an accepted literal:
    "0" is Decimal::ZERO; a negative exponent is kept as the number of
    fractional digits (no normalisation: 1.0 is (10, 1), 0.00 is (0, 2));
    a non-negative exponent is multiplied into the coefficient. *)
Definition lit_dec (l : lit) : dec :=
  if (l_digits l =? 0) && l_is_int l then mkdec 0 0
  else if l_exp l <? 0 then mkdec (lit_sgn l) (- l_exp l)
  else mkdec (lit_sgn l * 10 ^ l_exp l) 0.

Definition lit_accepted (l : lit) : Prop :=
  0 <= l_digits l /\
  (l_digits l = 0 -> l_is_int l = true \/ - 18 <= l_exp l < 0) /\
  (0 < l_digits l ->
     l_digits l < 10 ^ 39 /\
     (10 ^ 38 <= l_digits l -> 10 ^ 38 <= lit_mag l) /\
     lit_mag l <= i128_max /\
     - 18 <= l_exp l <= 38 /\
     (0 <= l_exp l -> lit_mag l * 10 ^ l_exp l <= i128_max)).

(** the reasons of rejection *)
Inductive lit_rejected (l : lit) : Prop :=
| rej_negative_digits :            (* the sign is a separate field *)
    l_digits l < 0 -> lit_rejected l
| rej_zero_without_digits :        (* "0." / "0e3": no digit left after the leading zeros *)
    l_digits l = 0 -> l_is_int l = false -> 0 <= l_exp l -> lit_rejected l
| rej_frac_digits :                (* more than 18 fractional digits *)
    l_exp l < - 18 -> (l_digits l <> 0 \/ l_is_int l = false) -> lit_rejected l
| rej_too_many_digits :            (* 40 digits or more *)
    10 ^ 39 <= l_digits l -> lit_rejected l
| rej_39_digits_wrapped_small :    (* 39 digits, wrapped accumulator < 10^38 *)
    10 ^ 38 <= l_digits l -> lit_mag l < 10 ^ 38 -> lit_rejected l
| rej_beyond_i128 :                (* (wrapped) accumulator > i128::MAX *)
    0 < l_digits l -> i128_max < lit_mag l -> lit_rejected l
| rej_exponent :                   (* 3 exponent digits (parser) or 10^e not in the table *)
    0 < l_digits l -> 38 < l_exp l -> lit_rejected l
| rej_scaled_beyond_i128 :         (* checked_mul by 10^e overflows *)
    0 < l_digits l -> 0 <= l_exp l <= 38 ->
    i128_max < lit_mag l * 10 ^ l_exp l -> lit_rejected l.

Lemma lit_mag_range l : 0 <= lit_mag l < 2 ^ 128.
Proof. unfold lit_mag. apply Z.mod_pos_bound. reflexivity. Qed.

Lemma lit_mag_small l : 0 <= l_digits l < 2 ^ 128 -> lit_mag l = l_digits l.
Proof. intros H. unfold lit_mag. apply Z.mod_small. assumption. Qed.

Lemma rejected_not_accepted l : lit_rejected l -> ~ lit_accepted l.
Proof.
  unfold lit_accepted. pose proof (lit_mag_range l) as Hm.
  intros [H|H1 H2 H3|H1 H2|H|H1 H2|H1 H2|H1 H2|H1 H2 H3] (A0 & Az & Ap).
  - lia.
  - destruct (Az H1) as [Hi|He]; [congruence|lia].
  - destruct (Z.eq_dec (l_digits l) 0) as [Hz|Hnz].
    + destruct (Az Hz) as [Hi|He]; [|lia]. destruct H2; congruence.
    + assert (Hp : 0 < l_digits l) by lia. specialize (Ap Hp). lia.
  - assert (Hp : 0 < l_digits l) by lia. specialize (Ap Hp). lia.
  - assert (Hp : 0 < l_digits l) by lia. specialize (Ap Hp). lia.
  - specialize (Ap H1). lia.
  - specialize (Ap H1). lia.
  - specialize (Ap H1). lia.
Qed.

(** [checked_mul] of the signed accumulator by 10^e: the asymmetry of i128
    (MIN = -MAX - 1) plays no role, 2^127 is not a multiple of 10 *)
Lemma in_i128_signed_pow (neg : bool) c e : 0 <= c <= i128_max -> 0 <= e ->
  (in_i128 ((if neg then -1 else 1) * c * 10 ^ e) = true <-> c * 10 ^ e <= i128_max).
Proof.
  intros Hc He. unfold in_i128, i128_min, i128_max in *.
  rewrite andb_true_iff, !Z.leb_le.
  assert (Hp : 0 < 10 ^ e) by (apply Z.pow_pos_nonneg; lia).
  destruct neg.
  - destruct (Z.eq_dec e 0) as [->|Hne].
    + rewrite Z.pow_0_r. lia.
    + replace e with (Z.succ (e - 1)) by lia. rewrite Z.pow_succ_r by lia.
      assert (0 < 10 ^ (e - 1)) by (apply Z.pow_pos_nonneg; lia).
      set (Q := 10 ^ (e - 1)) in *.
      assert (0 <= c * Q) by nia.
      replace (-1 * c * (10 * Q)) with (- (10 * (c * Q))) by ring.
      replace (c * (10 * Q)) with (10 * (c * Q)) by ring.
      set (X := c * Q) in *. lia.
  - set (P := 10 ^ e) in *. assert (0 <= c * P) by nia.
    replace (1 * c * P) with (c * P) by ring. lia.
Qed.

(** * The one traversal of [dec_of_lit] *)

Lemma gtb_ltb_spec a b : BoolSpec (b < a) (a <= b) (a >? b).
Proof. rewrite Z.gtb_ltb. apply Z.ltb_spec. Qed.

Lemma dec_of_lit_cases l :
  (lit_accepted l /\ dec_of_lit l = Some (lit_dec l)) \/
  (lit_rejected l /\ dec_of_lit l = None).
Proof.
  pose proof (lit_mag_range l) as Hm.
  unfold dec_of_lit, lit_dec, lit_accepted.
  destruct (Z.ltb_spec (l_digits l) 0) as [Hneg|Hnn].
  { right. split; [apply rej_negative_digits; assumption|reflexivity]. }
  destruct (Z.eqb_spec (l_digits l) 0) as [Hz|Hnz]; cbn [andb].
  - (* all digits zero *)
    destruct (l_is_int l) eqn:Hint.
    { left. split; [|reflexivity]. repeat split; lia. }
    unfold max_nfd.
    destruct (Z.ltb_spec (l_exp l) 0) as [He|He].
    + destruct (gtb_ltb_spec (- l_exp l) 18) as [Hf|Hf].
      * right. split; [|reflexivity]. apply rej_frac_digits; [lia|right; assumption].
      * left. split.
        { repeat split; try lia. }
        unfold lit_sgn, lit_mag. rewrite Hz, Z.mod_0_l, Z.mul_0_r by (intro; discriminate).
        reflexivity.
    + right. split; [|reflexivity]. apply rej_zero_without_digits; assumption.
  - (* at least one non-zero digit *)
    assert (Hpos : 0 < l_digits l) by lia.
    pose proof (ndigits_gt_iff (l_digits l) 39 Hpos ltac:(lia)) as H39.
    pose proof (ndigits_gt_iff (l_digits l) 38 Hpos ltac:(lia)) as H38.
    fold (lit_mag l). set (nd := ndigits (l_digits l)) in *. clearbody nd.
    set (c := lit_mag l) in *.
    unfold max_nfd.
    (* the fractional-digit test first: it subsumes the role of -E in n_digits *)
    destruct (Z_lt_ge_dec (l_exp l) (- 18)) as [Hfrac|Hfrac].
    { right. split; [apply rej_frac_digits; [assumption|left; lia]|].
      destruct (_ || _ || _); [reflexivity|].
      destruct (_ && _); [reflexivity|].
      destruct (gtb_ltb_spec (- l_exp l) 18); [reflexivity|lia]. }
    assert (Hmax : Z.max nd (if l_exp l <? 0 then - l_exp l else 0) = nd \/
                   (nd <= 18 /\ Z.max nd (if l_exp l <? 0 then - l_exp l else 0) <= 18)).
    { destruct (Z.ltb_spec (l_exp l) 0); lia. }
    set (n_digits := Z.max nd (if l_exp l <? 0 then - l_exp l else 0)) in *.
    clearbody n_digits.
    assert (Hs : (if l_neg l then - c else c) = lit_sgn l).
    { unfold lit_sgn, lit_sign. fold c. destruct (l_neg l); lia. }
    rewrite Hs.
    destruct (_ || _ || _) eqn:Hchk.
    { right. split; [|reflexivity].
      apply orb_true_iff in Hchk. destruct Hchk as [Hchk|Hchk];
        [apply orb_true_iff in Hchk; destruct Hchk as [Hchk|Hchk]|].
      - rewrite Z.gtb_ltb, Z.ltb_lt in Hchk. apply rej_too_many_digits. apply H39. lia.
      - apply andb_true_iff in Hchk. destruct Hchk as [Hn Hc].
        rewrite Z.eqb_eq in Hn. rewrite Z.ltb_lt in Hc.
        apply rej_39_digits_wrapped_small; [apply H38; lia|assumption].
      - rewrite Z.gtb_ltb, Z.ltb_lt in Hchk. apply rej_beyond_i128; assumption. }
    apply orb_false_iff in Hchk. destruct Hchk as [Hchk Hc2].
    apply orb_false_iff in Hchk. destruct Hchk as [Hn1 Hn2].
    rewrite Z.gtb_ltb, Z.ltb_ge in Hc2, Hn1.
    assert (Hlt39 : l_digits l < 10 ^ 39).
    { destruct (Z_lt_ge_dec (l_digits l) (10 ^ 39)) as [|Hge]; [assumption|].
      assert (39 < nd) by (apply H39; lia). lia. }
    assert (Hwrap : 10 ^ 38 <= l_digits l -> 10 ^ 38 <= c).
    { intros Hge. assert (38 < nd) by (apply H38; assumption).
      apply andb_false_iff in Hn2. destruct Hn2 as [Hn2|Hn2].
      - rewrite Z.eqb_neq in Hn2. lia.
      - rewrite Z.ltb_ge in Hn2. assumption. }
    clear Hn1 Hn2 Hmax H38 H39 n_digits nd.
    unfold dec_of_coeff_exp, checked_mul_pow_ten, chk, ten_pow, max_nfd.
    destruct (gtb_ltb_spec (- l_exp l) 18) as [?|_]; [lia|].
    destruct (Z.ltb_spec (l_exp l) 0) as [He|He].
    + (* a fraction: the exponent becomes the number of fractional digits *)
      destruct (Z.leb_spec 0 (l_exp l)); [lia|]. cbn [andb].
      destruct (gtb_ltb_spec (l_exp l) 38); [lia|].
      left. split; [|reflexivity]. repeat split; try lia; assumption.
    + (* exponent >= 0: multiplied into the coefficient *)
      destruct (Z.leb_spec 0 (l_exp l)); [|lia]. cbn [andb].
      destruct (gtb_ltb_spec (l_exp l) 99) as [H99|H99].
      { right. split; [|reflexivity]. apply rej_exponent; lia. }
      destruct (gtb_ltb_spec (l_exp l) 38) as [H38|H38].
      { right. split; [|reflexivity]. apply rej_exponent; lia. }
      pose proof (in_i128_signed_pow (l_neg l) c (l_exp l) ltac:(lia) He) as Hin.
      change ((if l_neg l then -1 else 1) * c) with (lit_sgn l) in Hin.
      destruct (in_i128 (lit_sgn l * 10 ^ l_exp l)) eqn:Hi.
      * left. split; [|reflexivity].
        repeat split; try lia; assumption.
      * right. split; [|reflexivity]. apply rej_scaled_beyond_i128; lia.
Qed.

(** * Acceptance and rejection, characterised *)

(** an accepted literal denotes [lit_dec l]: this pins down the coefficient
    and the number of fractional digits of the result for EVERY accepted
    literal (including the wrapped ones) *)
Theorem dec_of_lit_spec l d :
  dec_of_lit l = Some d <-> lit_accepted l /\ d = lit_dec l.
Proof.
  destruct (dec_of_lit_cases l) as [[Ha He]|[Hr He]]; rewrite He; split.
  - intros [= <-]. split; [assumption|reflexivity].
  - intros [_ ->]. reflexivity.
  - discriminate.
  - intros [Ha _]. exfalso. exact (rejected_not_accepted l Hr Ha).
Qed.

(** rejection happens for the listed reasons only *)
Theorem dec_of_lit_none l : dec_of_lit l = None <-> lit_rejected l.
Proof.
  destruct (dec_of_lit_cases l) as [[Ha He]|[Hr He]]; rewrite He; split.
  - discriminate.
  - intros Hr. exfalso. exact (rejected_not_accepted l Hr Ha).
  - intros _. assumption.
  - reflexivity.
Qed.

Corollary lit_accepted_or_rejected l :
  (lit_accepted l /\ ~ lit_rejected l) \/ (lit_rejected l /\ ~ lit_accepted l).
Proof.
  destruct (dec_of_lit_cases l) as [[Ha He]|[Hr He]].
  - left. split; [assumption|]. intros Hr. exact (rejected_not_accepted l Hr Ha).
  - right. split; [assumption|]. exact (rejected_not_accepted l Hr).
Qed.

Corollary dec_of_lit_some_iff l : (exists d, dec_of_lit l = Some d) <-> lit_accepted l.
Proof.
  split.
  - intros [d H]. apply dec_of_lit_spec in H. tauto.
  - intros H. exists (lit_dec l). apply dec_of_lit_spec. tauto.
Qed.

(** * The result is a well-formed Decimal *)

Lemma lit_mag_zero l : l_digits l = 0 -> lit_mag l = 0.
Proof. intros H. unfold lit_mag. rewrite H. reflexivity. Qed.

Lemma lit_sgn_in_i128 l e : lit_mag l <= i128_max -> 0 <= e ->
  lit_mag l * 10 ^ e <= i128_max -> in_i128 (lit_sgn l * 10 ^ e) = true.
Proof.
  intros Hc He Hle. pose proof (lit_mag_range l).
  unfold lit_sgn, lit_sign. apply in_i128_signed_pow; lia.
Qed.

Lemma lit_dec_wf l : lit_accepted l ->
  0 <= d_nfd (lit_dec l) <= 18 /\ in_i128 (d_coeff (lit_dec l)) = true.
Proof.
  intros (A0 & Az & Ap). unfold lit_dec.
  destruct (Z.eqb_spec (l_digits l) 0) as [Hz|Hnz]; cbn [andb].
  - destruct (l_is_int l).
    + cbn [d_nfd d_coeff]. split; [lia|reflexivity].
    + destruct (Az Hz) as [?|He]; [discriminate|].
      destruct (Z.ltb_spec (l_exp l) 0); [|lia]. cbn [d_nfd d_coeff].
      split; [lia|]. unfold lit_sgn. rewrite (lit_mag_zero l Hz), Z.mul_0_r. reflexivity.
  - assert (Hp : 0 < l_digits l) by lia.
    destruct (Ap Hp) as (_ & _ & Hc & He & Hs).
    destruct (Z.ltb_spec (l_exp l) 0); cbn [d_nfd d_coeff].
    + split; [lia|]. rewrite <- (Z.mul_1_r (lit_sgn l)). change 1 with (10 ^ 0) at 1.
      apply lit_sgn_in_i128; [assumption|lia|]. rewrite Z.pow_0_r. lia.
    + split; [lia|]. apply lit_sgn_in_i128; [assumption|lia|]. apply Hs. lia.
Qed.

(** * Exactness over the integers *)

(** the general statement: digits modulo 2^128 *)
Theorem dec_of_lit_exact_mod (l : lit) (d : dec) : dec_of_lit l = Some d ->
  0 <= l_digits l /\
  0 <= d_nfd d <= 18 /\ in_i128 (d_coeff d) = true /\
  (0 <= l_exp l ->
     d_nfd d = 0 /\ d_coeff d = lit_sign l * lit_mag l * 10 ^ l_exp l) /\
  (l_exp l < 0 ->
     d_coeff d = lit_sign l * lit_mag l /\
     (d_nfd d = - l_exp l \/
      (l_digits l = 0 /\ l_is_int l = true /\ d_nfd d = 0))).
Proof.
  intros H. apply dec_of_lit_spec in H. destruct H as [Ha ->].
  destruct (lit_dec_wf l Ha) as [Hn Hi].
  split; [apply Ha|]. split; [assumption|]. split; [assumption|].
  unfold lit_dec. fold (lit_sgn l).
  destruct (Z.eqb_spec (l_digits l) 0) as [Hz|Hnz]; cbn [andb].
  - unfold lit_sgn. rewrite (lit_mag_zero l Hz), !Z.mul_0_r, Z.mul_0_l.
    destruct (l_is_int l); cbn [d_nfd d_coeff].
    + split; intros _; [tauto|]. split; [reflexivity|]. right. tauto.
    + destruct (Z.ltb_spec (l_exp l) 0); cbn [d_nfd d_coeff];
        (split; intros ?; [try lia; tauto | try lia; tauto]).
  - unfold lit_sgn.
    destruct (Z.ltb_spec (l_exp l) 0); cbn [d_nfd d_coeff];
      (split; intros ?; [try lia; tauto | try lia; tauto]).
Qed.

(** MAIN STATEMENT.  An accepted literal whose digits are below 2^128 (in
    particular: any literal of at most 38 digits, any literal whose digits fit
    i128) is represented exactly: for a non-negative exponent the result has
    no fractional digits and the coefficient is sign * digits * 10^exp; for a
    negative exponent the coefficient is sign * digits and the number of
    fractional digits is - exp, with no normalisation (the only exception is
    the ill-formed record "integer literal 0 with a negative exponent", which
    is Decimal::ZERO). *)
Theorem dec_of_lit_exact (l : lit) (d : dec) : dec_of_lit l = Some d ->
  l_digits l < 2 ^ 128 ->
  0 <= d_nfd d <= 18 /\ in_i128 (d_coeff d) = true /\
  (0 <= l_exp l ->
     d_nfd d = 0 /\ d_coeff d = lit_sign l * l_digits l * 10 ^ l_exp l) /\
  (l_exp l < 0 ->
     d_coeff d = lit_sign l * l_digits l /\
     (d_nfd d = - l_exp l \/
      (l_digits l = 0 /\ l_is_int l = true /\ d_nfd d = 0))).
Proof.
  intros H Hlt. apply dec_of_lit_exact_mod in H.
  destruct H as (H0 & Hn & Hi & H).
  rewrite lit_mag_small in H by lia. tauto.
Qed.

(** the same with the denominators of [lit_Q_num_den] cleared:
    coeff / 10^nfd = num / den *)
Theorem dec_of_lit_exact_Q (l : lit) (d : dec) : dec_of_lit l = Some d ->
  l_digits l < 2 ^ 128 ->
  d_coeff d * snd (lit_Q_num_den l) = fst (lit_Q_num_den l) * 10 ^ d_nfd d.
Proof.
  intros H Hlt. destruct (dec_of_lit_exact l d H Hlt) as (_ & _ & Hp & Hn).
  unfold lit_Q_num_den. fold (lit_sign l).
  destruct (Z.leb_spec 0 (l_exp l)) as [He|He]; cbn [fst snd].
  - destruct (Hp He) as [-> ->]. rewrite Z.pow_0_r. ring.
  - destruct (Hn He) as [-> [->|(Hz & _ & ->)]]; [reflexivity|].
    rewrite Hz. ring.
Qed.

(** ... and the wrapping is the ONLY inexactness: an accepted literal has the
    right value exactly when its digits are below 2^128 *)
Theorem dec_of_lit_exact_iff (l : lit) (d : dec) : dec_of_lit l = Some d ->
  (d_coeff d * snd (lit_Q_num_den l) = fst (lit_Q_num_den l) * 10 ^ d_nfd d
   <-> l_digits l < 2 ^ 128).
Proof.
  intros H. split; [|apply dec_of_lit_exact_Q; assumption].
  intros Heq. destruct (Z_lt_ge_dec (l_digits l) (2 ^ 128)) as [|Hge]; [assumption|exfalso].
  destruct (dec_of_lit_exact_mod l d H) as (_ & _ & _ & Hp & Hn).
  apply dec_of_lit_spec in H. destruct H as [(_ & _ & Ap) _].
  destruct (Ap ltac:(lia)) as (_ & Hw & _).
  assert (Hlt : lit_mag l < l_digits l) by (pose proof (lit_mag_range l); lia).
  assert (Hpos : 0 < lit_mag l) by lia.
  revert Heq. unfold lit_Q_num_den. fold (lit_sign l).
  assert (Hsg : lit_sign l = 1 \/ lit_sign l = -1)
    by (unfold lit_sign; destruct (l_neg l); lia).
  destruct (Z.leb_spec 0 (l_exp l)) as [He|He]; cbn [fst snd].
  - destruct (Hp He) as [-> ->]. rewrite Z.pow_0_r.
    assert (0 < 10 ^ l_exp l) by (apply Z.pow_pos_nonneg; lia).
    set (P := 10 ^ l_exp l) in *. destruct Hsg as [-> | ->]; nia.
  - destruct (Hn He) as [-> [->|(Hz & _)]]; [|lia].
    assert (0 < 10 ^ (- l_exp l)) by (apply Z.pow_pos_nonneg; lia).
    set (P := 10 ^ (- l_exp l)) in *. destruct Hsg as [-> | ->]; nia.
Qed.

(** "at most 38 digits" is enough for the hypothesis of the exactness theorems *)
Lemma ndigits_le_38_small n : ndigits n <= 38 -> n < 2 ^ 128.
Proof.
  intros H. destruct (Z_lt_ge_dec 0 n) as [Hp|Hn]; [|lia].
  pose proof (ndigits_gt_iff n 38 Hp ltac:(lia)) as H38. lia.
Qed.

(** a witness: the 39-digit literal 2^128 + 12 * 10^37 is accepted as 12 * 10^37 *)
Example dec_of_lit_wraps :
  dec_of_lit (mklit false 460282366920938463463374607431768211456 0 true)
  = Some (mkdec 120000000000000000000000000000000000000 0).
Proof. vm_compute. reflexivity. Qed.

(** * Over the reals *)

Definition lit_scale (l : lit) : R :=
  if 0 <=? l_exp l then IZR (10 ^ l_exp l) else (/ IZR (10 ^ (- l_exp l)))%R.

Theorem dec_of_lit_ok (l : lit) (d : dec) : dec_of_lit l = Some d -> dec_ok d /\ dec_wf d.
Proof.
  intros H. apply dec_of_lit_exact_mod in H. destruct H as (_ & Hn & Hi & _).
  split; [exact Hn|]. unfold dec_wf, dec_wfb, max_nfd.
  rewrite Hi, andb_true_r, andb_true_iff, !Z.leb_le. exact Hn.
Qed.

Theorem dec_of_lit_dval_mod (l : lit) (d : dec) : dec_of_lit l = Some d ->
  dval d = (IZR (lit_sign l * lit_mag l) * lit_scale l)%R.
Proof.
  intros H. destruct (dec_of_lit_exact_mod l d H) as (_ & _ & _ & Hp & Hn).
  unfold dval, lit_scale, ten_pow.
  destruct (Z.leb_spec 0 (l_exp l)) as [He|He].
  - destruct (Hp He) as [-> ->]. rewrite Z.pow_0_r, mult_IZR. field.
  - destruct (Hn He) as [-> [->|(Hz & _ & ->)]]; [reflexivity|].
    rewrite (lit_mag_zero l Hz), Z.mul_0_r. unfold Rdiv. rewrite !Rmult_0_l. reflexivity.
Qed.

Theorem dec_of_lit_dval (l : lit) (d : dec) : dec_of_lit l = Some d ->
  l_digits l < 2 ^ 128 ->
  dval d = (IZR (lit_sign l * l_digits l) *
            (if 0 <=? l_exp l then IZR (10 ^ l_exp l) else / IZR (10 ^ (- l_exp l))))%R.
Proof.
  intros H Hlt. rewrite (dec_of_lit_dval_mod l d H).
  assert (0 <= l_digits l) by (apply dec_of_lit_exact_mod in H; tauto).
  rewrite lit_mag_small by lia. reflexivity.
Qed.

(** for a positive literal (the sign being a unary minus applied afterwards) *)
Corollary dec_of_lit_dval_pos (l : lit) (d : dec) : dec_of_lit l = Some d ->
  l_neg l = false -> l_digits l < 2 ^ 128 ->
  dval d = (IZR (l_digits l) *
            (if 0 <=? l_exp l then IZR (10 ^ l_exp l) else / IZR (10 ^ (- l_exp l))))%R.
Proof.
  intros H Hneg Hlt. rewrite (dec_of_lit_dval l d H Hlt). unfold lit_sign.
  rewrite Hneg, Z.mul_1_l. reflexivity.
Qed.

(** * Sufficient conditions for acceptance *)

Lemma i128_max_lt_2_128 : i128_max < 2 ^ 128.
Proof. reflexivity. Qed.

(** every literal with at most 18 fractional digits whose digits fit i128 *)
Corollary dec_of_lit_accepts (l : lit) :
  0 < l_digits l <= i128_max -> - 18 <= l_exp l <= 0 ->
  dec_of_lit l = Some (mkdec (lit_sign l * l_digits l) (- l_exp l)).
Proof.
  intros HD HE. pose proof i128_max_lt_2_128 as H128.
  assert (Hm : lit_mag l = l_digits l) by (apply lit_mag_small; lia).
  apply dec_of_lit_spec. split.
  - unfold lit_accepted. rewrite Hm. unfold i128_max in *.
    repeat split; try lia.
    intros ?. replace (l_exp l) with 0 by lia. rewrite Z.pow_0_r. lia.
  - unfold lit_dec, lit_sgn. rewrite Hm.
    destruct (Z.eqb_spec (l_digits l) 0); [lia|]. cbn [andb].
    destruct (Z.ltb_spec (l_exp l) 0); [reflexivity|].
    replace (l_exp l) with 0 by lia. rewrite Z.pow_0_r, Z.mul_1_r. reflexivity.
Qed.

(** ... and with an exponent, as long as the scaled coefficient fits *)
Corollary dec_of_lit_accepts_exp (l : lit) :
  0 < l_digits l -> 0 <= l_exp l <= 38 -> l_digits l * 10 ^ l_exp l <= i128_max ->
  dec_of_lit l = Some (mkdec (lit_sign l * l_digits l * 10 ^ l_exp l) 0).
Proof.
  intros HD HE Hfit. pose proof i128_max_lt_2_128 as H128.
  assert (0 < 10 ^ l_exp l) by (apply Z.pow_pos_nonneg; lia).
  assert (HDm : l_digits l <= i128_max) by nia.
  assert (Hm : lit_mag l = l_digits l) by (apply lit_mag_small; lia).
  apply dec_of_lit_spec. split.
  - unfold lit_accepted. rewrite Hm. unfold i128_max in *.
    repeat split; try lia.
  - unfold lit_dec, lit_sgn. rewrite Hm.
    destruct (Z.eqb_spec (l_digits l) 0); [lia|]. cbn [andb].
    destruct (Z.ltb_spec (l_exp l) 0); [lia|]. reflexivity.
Qed.

(** the literals of the task description *)
Example lit_ex1 : dec_of_lit (mklit false 254 (-4) false) = Some (mkdec 254 4).
Proof. reflexivity. Qed.
Example lit_ex2 : dec_of_lit (mklit true 254 (-4) false) = Some (mkdec (-254) 4).
Proof. reflexivity. Qed.
Example lit_ex3 : dec_of_lit (mklit false 1 0 true) = Some (mkdec 1 0).
Proof. reflexivity. Qed.
Example lit_ex4 : dec_of_lit (mklit false 0 (-2) false) = Some (mkdec 0 2).
Proof. reflexivity. Qed.
Example lit_ex5 : dec_of_lit (mklit false 1000 0 false) = Some (mkdec 1000 0).
Proof. reflexivity. Qed.
Example lit_ex6 : dec_of_lit (mklit false 25 2 false) = Some (mkdec 2500 0).
Proof. reflexivity. Qed.
Example lit_ex7 : dec_of_lit (mklit false 277777777777777778 (-18) false)
                  = Some (mkdec 277777777777777778 18).
Proof. vm_compute. reflexivity. Qed.
Example lit_ex8 : dec_of_lit (mklit false 1 (-19) false) = None.
Proof. reflexivity. Qed.
Example lit_ex9 : dec_of_lit (mklit false 0 0 false) = None.          (* "0." *)
Proof. reflexivity. Qed.
Example lit_ex10 : dec_of_lit (mklit false 0 3 false) = None.         (* "0e3" *)
Proof. reflexivity. Qed.
Example lit_ex11 : dec_of_lit (mklit false (2 ^ 127) 0 true) = None.  (* i128::MAX + 1 *)
Proof. vm_compute. reflexivity. Qed.
Example lit_ex12 : dec_of_lit (mklit false (10 ^ 39) 0 true) = None.  (* 40 digits *)
Proof. vm_compute. reflexivity. Qed.

Print Assumptions dec_of_lit_spec.
Print Assumptions dec_of_lit_none.
Print Assumptions dec_of_lit_exact.
Print Assumptions dec_of_lit_exact_Q.
Print Assumptions dec_of_lit_exact_iff.
Print Assumptions dec_of_lit_accepts.
Print Assumptions dec_of_lit_accepts_exp.
Print Assumptions dec_of_lit_ok.
Print Assumptions dec_of_lit_dval.
Print Assumptions dec_of_lit_dval_mod.
