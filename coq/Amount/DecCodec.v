(* Amount/DecCodec.v — the decimal amount codec of the serde data model:
   fpdec's serde-as-str form, [String::from(d)] out and
   [Decimal::try_from(String)] (= from_str) back.  These two definitions are what
   the correspondence run evaluates against serde_json, and the round trip is a
   theorem about them (from Amount/DecStr.v) for every decimal with 0..18
   fractional digits whose coefficient is not i128::MIN. *)
From Coq Require Import ZArith.
From QV Require Import Rt.Prelude Rt.Serde Amount.DecModel Amount.DecStr.

Definition enc_dec (d : dec) : sval := VStr (dec_to_string d).
Definition dcd_dec (v : sval) : option dec := match v with VStr s => dec_from_str s | _ => None end.

Lemma dec_codec_roundtrip d : (0 <= d_nfd d <= 18)%Z -> (Z.abs (d_coeff d) <= i128_max)%Z -> dcd_dec (enc_dec d) = Some d.
Proof. intros H1 H2. cbn [dcd_dec enc_dec]. apply dec_string_roundtrip; assumption. Qed.
