(* Amount/Dec.v — the fixed-point decimal amount type: fpdec::Decimal as modelled
   in Amount/DecModel.v, packaged as an instance of the Amount interface.
   Modelled (fpdec is a dependency, not repository code); validated by
   tools/dectest and by the correspondence runs of the property checks. *)
From Coq Require Import ZArith String.
From QV Require Import Rt.Prelude Rt.Amount Rt.Fmt Rt.Show Amount.DecModel.

Definition dec_display (sp : fspec) (d : dec) : ustring :=
  let '(nn, text) := dec_display_parts (f_prec sp) d in
  fmt_pad_integral sp nn text.

Definition DEC : Amount := {|
  A := dec;
  a_zero := dec_zero;
  a_one := dec_one;
  a_add := dec_add;
  a_sub := dec_sub;
  a_mul := dec_mul;
  a_div := dec_div;
  a_neg := dec_neg;
  a_abs := dec_abs;
  a_sign_neg := fun d => (d_coeff d <? 0)%Z;
  a_eqb := dec_eqb;
  a_cmp := fun x y => Some (dec_cmp x y);
  a_of_lit := dec_of_lit;
  a_is_dec := true;
  a_display := dec_display
|}.

(** canonical text for the correspondence: coeff/nfd *)
Definition show_dec (d : dec) : string :=
  (show_Z (d_coeff d) ++ "/" ++ show_Z (d_nfd d))%string.
