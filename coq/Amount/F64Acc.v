(* Amount/F64Acc.v — one rounded binary64 operation costs a factor (1 + d),
   |d| <= 2^-53, as long as the exact result is in the normal range — from
   Flocq's correctness theorems (Bmult_correct, Bdiv_correct, Bplus_correct,
   Bminus_correct) and its relative-error theorem for FLT formats.  These are the
   per-operation lemmas from which the magnitude bounds of the conversion,
   arithmetic and derived-operation kernels are composed. *)
From Coq Require Import Reals ZArith Lra Psatz Bool.
From Flocq Require Import Core IEEE754.BinarySingleNaN IEEE754.Binary IEEE754.Bits Relative.
From QV Require Import Rt.Prelude Rt.Amount Amount.F64.
Open Scope R_scope.

(** unit roundoff of binary64 *)
Definition u64 : R := / 2 * bpow radix2 (-53 + 1).
Definition tiny : R := bpow radix2 (-1022).       (* smallest positive normal number *)
Definition huge : R := bpow radix2 1024.

Notation fin x := (is_finite 53 1024 x = true).
Notation val x := (B2R 53 1024 x).

Lemma u64_pos : 0 < u64.
Proof. unfold u64. pose proof (bpow_gt_0 radix2 (-53 + 1)). lra. Qed.

Definition Hp : Prec_gt_0 53 := eq_refl.
Definition Hm : Prec_lt_emax 53 1024 := eq_refl.

Lemma f64_mul_unfold x y : f64_mul x y = Bmult 53 1024 Hp Hm binop_nan_pl64 mode_NE x y.
Proof. reflexivity. Qed.
Lemma f64_div_unfold x y : f64_div x y = Bdiv 53 1024 Hp Hm binop_nan_pl64 mode_NE x y.
Proof. reflexivity. Qed.
Lemma f64_add_unfold x y : f64_add x y = Bplus 53 1024 Hp Hm binop_nan_pl64 mode_NE x y.
Proof. reflexivity. Qed.
Lemma f64_sub_unfold x y : f64_sub x y = Bminus 53 1024 Hp Hm binop_nan_pl64 mode_NE x y.
Proof. reflexivity. Qed.

(** rounding a real in the normal range *)
Lemma round_rel (r : R) : tiny <= Rabs r ->
  exists d, Rabs d <= u64 /\ round radix2 (SpecFloat.fexp 53 1024) (round_mode mode_NE) r = r * (1 + d).
Proof.
  intros H. exact (relative_error_N_FLT_ex radix2 (-1074) 53 Hp (fun x => negb (Z.even x)) r H).
Qed.

Lemma round_lt_huge r d : Rabs d <= u64 -> Rabs r * (1 + u64) < huge -> Rabs (r * (1 + d)) < huge.
Proof.
  intros Hd Hr. rewrite Rabs_mult. pose proof u64_pos. pose proof (Rabs_pos r).
  assert (Rabs (1 + d) <= 1 + u64).
  { apply Rabs_le. apply Rabs_le_inv in Hd. lra. }
  apply Rle_lt_trans with (Rabs r * (1 + u64)); [apply Rmult_le_compat_l; assumption|exact Hr].
Qed.

(** x * y *)
Theorem f64_mul_rel x y : fin x -> fin y ->
  tiny <= Rabs (val x * val y) -> Rabs (val x * val y) * (1 + u64) < huge ->
  exists d, Rabs d <= u64 /\ fin (f64_mul x y) /\ val (f64_mul x y) = val x * val y * (1 + d).
Proof.
  intros Fx Fy Hlo Hhi. destruct (round_rel _ Hlo) as (d & Hd & Er).
  pose proof (Bmult_correct 53 1024 Hp Hm binop_nan_pl64 mode_NE x y) as H.
  rewrite Er in H. rewrite Rlt_bool_true in H by (apply round_lt_huge; assumption).
  destruct H as (Hv & Hf & _). exists d. rewrite f64_mul_unfold. split; [exact Hd|]. split.
  - rewrite Hf, Fx, Fy. reflexivity.
  - exact Hv.
Qed.

(** x / y *)
Theorem f64_div_rel x y : fin x -> fin y -> val y <> 0 ->
  tiny <= Rabs (val x / val y) -> Rabs (val x / val y) * (1 + u64) < huge ->
  exists d, Rabs d <= u64 /\ fin (f64_div x y) /\ val (f64_div x y) = val x / val y * (1 + d).
Proof.
  intros Fx Fy Hy Hlo Hhi. destruct (round_rel _ Hlo) as (d & Hd & Er).
  pose proof (Bdiv_correct 53 1024 Hp Hm binop_nan_pl64 mode_NE x y Hy) as H.
  rewrite Er in H. rewrite Rlt_bool_true in H by (apply round_lt_huge; assumption).
  destruct H as (Hv & Hf & _). exists d. rewrite f64_div_unfold. split; [exact Hd|]. split.
  - rewrite Hf. exact Fx.
  - exact Hv.
Qed.

(** x + y and x - y *)
Theorem f64_add_rel x y : fin x -> fin y ->
  tiny <= Rabs (val x + val y) -> Rabs (val x + val y) * (1 + u64) < huge ->
  exists d, Rabs d <= u64 /\ fin (f64_add x y) /\ val (f64_add x y) = (val x + val y) * (1 + d).
Proof.
  intros Fx Fy Hlo Hhi. destruct (round_rel _ Hlo) as (d & Hd & Er).
  pose proof (Bplus_correct 53 1024 Hp Hm binop_nan_pl64 mode_NE x y Fx Fy) as H.
  rewrite Er in H. rewrite Rlt_bool_true in H by (apply round_lt_huge; assumption).
  destruct H as (Hv & Hf & _). exists d. rewrite f64_add_unfold. split; [exact Hd|]. split; [exact Hf|exact Hv].
Qed.

Theorem f64_sub_rel x y : fin x -> fin y ->
  tiny <= Rabs (val x - val y) -> Rabs (val x - val y) * (1 + u64) < huge ->
  exists d, Rabs d <= u64 /\ fin (f64_sub x y) /\ val (f64_sub x y) = (val x - val y) * (1 + d).
Proof.
  intros Fx Fy Hlo Hhi. destruct (round_rel _ Hlo) as (d & Hd & Er).
  pose proof (Bminus_correct 53 1024 Hp Hm binop_nan_pl64 mode_NE x y Fx Fy) as H.
  rewrite Er in H. rewrite Rlt_bool_true in H by (apply round_lt_huge; assumption).
  destruct H as (Hv & Hf & _). exists d. rewrite f64_sub_unfold. split; [exact Hd|]. split; [exact Hf|exact Hv].
Qed.
