(* Amount/DecAcc.v — accuracy and totality of the model of fpdec::Decimal
   (Amount/DecModel.v): addition and subtraction are exact, a product or
   quotient is within half a unit of the 18th fractional digit of the exact
   result (exact when it needs no rounding), and the operations return a value
   (no panic) whenever operands and result are of moderate magnitude.
   Everything is first stated over integers (coefficients), then over reals. *)
From Coq Require Import ZArith Lia Bool Reals Lra.
From Flocq Require Import Core.Raux.
From QV Require Import Rt.Prelude Amount.DecModel Amount.Laws.
Local Open Scope Z_scope.

Ltac Zify.zify_post_hook ::= Z.div_mod_to_equations.

(** * rounding a quotient to the nearest integer (ties to even) *)
(** [round_quot q r d] with 0 < d, 0 <= r <= d represents the value q + r/d *)
Lemma round_quot_spec q r d z : 0 < d -> 0 <= r <= d -> round_quot q r d = Ok z ->
  2 * Z.abs (z * d - (q * d + r)) <= d.
Proof.
  unfold round_quot. intros Hd Hr.
  destruct (r =? 0) eqn:E0.
  - apply Z.eqb_eq in E0. intros [= <-]. subst r. replace (q * d - (q * d + 0)) with 0 by ring. cbn. lia.
  - destruct ((2 * r >? d) || ((2 * r =? d) && negb (Z.even q))) eqn:E.
    + unfold ovf. destruct (in_i128 (q + 1)); [|discriminate]. intros [= <-].
      apply orb_true_iff in E. replace ((q + 1) * d - (q * d + r)) with (d - r) by ring.
      destruct E as [E|E].
      * apply Z.gtb_lt in E. rewrite Z.abs_eq by lia. lia.
      * apply andb_true_iff in E as [E _]. apply Z.eqb_eq in E. rewrite Z.abs_eq by lia. lia.
    + intros [= <-]. apply orb_false_iff in E as [E1 E2].
      replace (q * d - (q * d + r)) with (- r) by ring. rewrite Z.abs_opp, Z.abs_eq by lia.
      destruct (Z.gtb_spec (2 * r) d); [discriminate|]. lia.
Qed.

(** [i128_div_rounded n d]: n / d rounded to the nearest integer *)
Lemma i128_div_rounded_spec n d z : i128_div_rounded n d = Ok z -> d <> 0 /\ 2 * Z.abs (z * d - n) <= Z.abs d.
Proof.
  unfold i128_div_rounded. destruct (d =? 0) eqn:E0; [discriminate|]. apply Z.eqb_neq in E0.
  unfold flip_signs. destruct (d <? 0) eqn:Ed.
  - apply Z.ltb_lt in Ed. unfold ovf. destruct (in_i128 (- n)); cbn [bind]; [|discriminate]. destruct (in_i128 (- d)); cbn [bind]; [|discriminate].
    intros H. split; [exact E0|].
    assert (Hd : 0 < - d) by lia.
    assert (Hr : 0 <= - n mod - d <= - d) by (pose proof (Z.mod_pos_bound (- n) (- d) Hd) as B; split; [apply B|apply Z.lt_le_incl, B]).
    pose proof (round_quot_spec (- n / - d) (- n mod - d) (- d) z Hd Hr H) as S.
    replace (- n / - d * - d + - n mod - d) with (- n) in S by (rewrite (Z.mul_comm (_ / _)); apply Z.div_mod; lia).
    replace (z * - d - - n) with (- (z * d - n)) in S by ring. rewrite Z.abs_opp in S. rewrite (Z.abs_neq d) by lia. exact S.
  - apply Z.ltb_ge in Ed. cbn [bind]. intros H. split; [exact E0|].
    assert (Hd : 0 < d) by lia.
    assert (Hr : 0 <= n mod d <= d) by (pose proof (Z.mod_pos_bound n d Hd) as B; split; [apply B|apply Z.lt_le_incl, B]).
    pose proof (round_quot_spec (n / d) (n mod d) d z Hd Hr H) as S.
    replace (n / d * d + n mod d) with n in S by (rewrite (Z.mul_comm (_ / _)); apply Z.div_mod; lia).
    rewrite (Z.abs_eq d) by lia. exact S.
Qed.

(** [i128_mul_div_ten_pow_rounded x y p]: x * y / 10^p rounded to the nearest integer *)
Lemma ten_pow_pos p : 0 <= p -> 0 < ten_pow p.
Proof. intros H. unfold ten_pow. apply Z.pow_pos_nonneg; lia. Qed.

Lemma mul_div_ten_pow_spec x y p z : 0 <= p -> i128_mul_div_ten_pow_rounded x y p = Ok z ->
  2 * Z.abs (z * ten_pow p - x * y) <= ten_pow p.
Proof.
  intros Hp. unfold i128_mul_div_ten_pow_rounded. pose proof (ten_pow_pos p Hp) as Hd.
  set (d := ten_pow p) in *. set (m := Z.abs x * Z.abs y).
  destruct (m / d >? i128_max); [discriminate|].
  assert (Hm : m = m / d * d + m mod d) by (rewrite Z.mul_comm; apply Z.div_mod; lia).
  pose proof (Z.mod_pos_bound m d Hd) as Hr.
  destruct (negb (Bool.eqb (x <? 0) (y <? 0))) eqn:Es.
  - (* signs differ: x * y = - m *)
    intros H. assert (Hr' : 0 <= d - m mod d <= d) by (destruct Hr as [Hr1 Hr2]; split; [apply Z.le_0_sub, Z.lt_le_incl, Hr2 | apply Z.le_sub_nonneg, Hr1]).
    pose proof (round_quot_spec (- (m / d) - 1) (d - m mod d) d z Hd Hr' H) as S.
    assert (Exy : x * y = - m).
    { unfold m. apply negb_true_iff in Es. destruct (Z.ltb_spec x 0), (Z.ltb_spec y 0); cbn in Es; try discriminate.
      - rewrite (Z.abs_neq x), (Z.abs_eq y) by lia. ring.
      - rewrite (Z.abs_eq x), (Z.abs_neq y) by lia. ring. }
    rewrite Exy. replace ((- (m / d) - 1) * d + (d - m mod d)) with (- m) in S by lia. exact S.
  - intros H. assert (Hr' : 0 <= m mod d <= d) by (destruct Hr as [Hr1 Hr2]; split; [exact Hr1|apply Z.lt_le_incl, Hr2]).
    pose proof (round_quot_spec (m / d) (m mod d) d z Hd Hr' H) as S.
    assert (Exy : x * y = m).
    { unfold m. apply negb_false_iff in Es. destruct (Z.ltb_spec x 0), (Z.ltb_spec y 0); cbn in Es; try discriminate.
      - rewrite (Z.abs_neq x), (Z.abs_neq y) by lia. ring.
      - rewrite (Z.abs_eq x), (Z.abs_eq y) by lia. ring. }
    rewrite Exy. rewrite <- Hm in S. exact S.
Qed.

(** [i128_shifted_div_rounded n p d]: n * 10^p / d rounded to the nearest integer *)
Lemma shifted_div_spec n p d z : 0 <= p -> i128_shifted_div_rounded n p d = Ok z ->
  d <> 0 /\ 2 * Z.abs (z * d - n * ten_pow p) <= Z.abs d.
Proof.
  intros Hp. unfold i128_shifted_div_rounded. destruct (d =? 0) eqn:E0; [discriminate|]. apply Z.eqb_neq in E0.
  pose proof (ten_pow_pos p Hp) as Ht.
  assert (core : forall n' d', 0 < d' ->
    (let m := Z.abs n' * ten_pow p in
     if m / d' >? i128_max then Panic PAmount
     else if n' <? 0 then round_quot (- (m / d') - 1) (d' - m mod d') d' else round_quot (m / d') (m mod d') d') = Ok z ->
    2 * Z.abs (z * d' - n' * ten_pow p) <= d').
  { intros n' d' Hd. cbv zeta. set (m := Z.abs n' * ten_pow p).
    destruct (m / d' >? i128_max); [discriminate|].
    assert (Hm : m = m / d' * d' + m mod d') by (rewrite (Z.mul_comm (_ / _)); apply Z.div_mod; lia).
    pose proof (Z.mod_pos_bound m d' Hd) as [Hr1 Hr2].
    destruct (Z.ltb_spec n' 0) as [Hn|Hn].
    - intros H. assert (Hr' : 0 <= d' - m mod d' <= d') by (split; [apply Z.le_0_sub, Z.lt_le_incl, Hr2 | apply Z.le_sub_nonneg, Hr1]).
      pose proof (round_quot_spec _ _ _ z Hd Hr' H) as S.
      assert (E : n' * ten_pow p = - m) by (unfold m; rewrite (Z.abs_neq n') by lia; ring).
      rewrite E. replace ((- (m / d') - 1) * d' + (d' - m mod d')) with (- m) in S by lia. exact S.
    - intros H. assert (Hr' : 0 <= m mod d' <= d') by (split; [exact Hr1|apply Z.lt_le_incl, Hr2]).
      pose proof (round_quot_spec _ _ _ z Hd Hr' H) as S.
      assert (E : n' * ten_pow p = m) by (unfold m; rewrite (Z.abs_eq n') by lia; ring).
      rewrite E. rewrite <- Hm in S. exact S. }
  unfold flip_signs. destruct (Z.ltb_spec d 0) as [Ed|Ed].
  - unfold ovf. destruct (in_i128 (- n)); cbn [bind]; [|discriminate]. destruct (in_i128 (- d)); cbn [bind]; [|discriminate].
    intros H. split; [exact E0|]. assert (Hd : 0 < - d) by lia.
    pose proof (core (- n) (- d) Hd H) as S.
    replace (z * - d - - n * ten_pow p) with (- (z * d - n * ten_pow p)) in S by ring.
    rewrite Z.abs_opp in S. rewrite (Z.abs_neq d) by lia. exact S.
  - cbn [bind]. intros H. split; [exact E0|]. assert (Hd : 0 < d) by lia.
    pose proof (core n d Hd H) as S. rewrite (Z.abs_eq d) by lia. exact S.
Qed.

(** * values *)
Lemma ten_pow_add a b : 0 <= a -> 0 <= b -> ten_pow (a + b) = ten_pow a * ten_pow b.
Proof. intros. unfold ten_pow. apply Z.pow_add_r; assumption. Qed.


(** addition and subtraction: exact on coefficients brought to the larger
    number of fractional digits *)
Lemma dec_addsub_spec op x y z : dec_ok x -> dec_ok y -> dec_addsub op x y = Ok z ->
  let n := Z.max (d_nfd x) (d_nfd y) in
  d_nfd z = n /\ d_coeff z = op (d_coeff x * ten_pow (n - d_nfd x)) (d_coeff y * ten_pow (n - d_nfd y)).
Proof.
  unfold dec_ok, dec_addsub, mul_pow_ten, ovf. intros Hx Hy.
  destruct (Z.compare_spec (d_nfd x) (d_nfd y)) as [E|E|E].
  - destruct (in_i128 _); cbn [bind]; [|discriminate]. intros [= <-]. cbn [d_nfd d_coeff].
    rewrite E, Z.max_id, Z.sub_diag. unfold ten_pow. cbn [Z.pow]. rewrite !Z.mul_1_r. split; reflexivity.
  - destruct (in_i128 (d_coeff x * _)); cbn [bind]; [|discriminate].
    destruct (in_i128 (op _ _)); cbn [bind]; [|discriminate]. intros [= <-]. cbn [d_nfd d_coeff].
    rewrite Z.max_r by lia. rewrite Z.sub_diag. unfold ten_pow at 3. cbn [Z.pow]. rewrite Z.mul_1_r. split; reflexivity.
  - destruct (in_i128 (d_coeff y * _)); cbn [bind]; [|discriminate].
    destruct (in_i128 (op _ _)); cbn [bind]; [|discriminate]. intros [= <-]. cbn [d_nfd d_coeff].
    rewrite Z.max_l by lia. rewrite Z.sub_diag. unfold ten_pow at 1. cbn [Z.pow]. rewrite Z.mul_1_r. split; reflexivity.
Qed.

(** * real values *)
Definition dval (d : dec) : R := (IZR (d_coeff d) / IZR (ten_pow (d_nfd d)))%R.
(** half a unit of the 18th fractional digit *)
Definition half_ulp18 : R := (/ 2 * / IZR (ten_pow 18))%R.

Lemma IZR_ten_pow_pos n : 0 <= n -> (0 < IZR (ten_pow n))%R.
Proof. intros H. apply IZR_lt. apply ten_pow_pos. exact H. Qed.

Lemma IZR_ten_pow_add a b : 0 <= a -> 0 <= b -> IZR (ten_pow (a + b)) = (IZR (ten_pow a) * IZR (ten_pow b))%R.
Proof. intros. rewrite ten_pow_add by assumption. apply mult_IZR. Qed.

(** a value with [n] digits against an exact numerator over [n + k] digits *)
Lemma dval_diff c n k N : 0 <= n -> 0 <= k ->
  (IZR c / IZR (ten_pow n) - IZR N / IZR (ten_pow (n + k)) = IZR (c * ten_pow k - N) / IZR (ten_pow (n + k)))%R.
Proof.
  intros Hn Hk. rewrite IZR_ten_pow_add by assumption. rewrite minus_IZR, mult_IZR.
  pose proof (IZR_ten_pow_pos n Hn). pose proof (IZR_ten_pow_pos k Hk). field. split; lra.
Qed.

Lemma dval_scaled c n k : 0 <= n -> 0 <= k -> (IZR (c * ten_pow k) / IZR (ten_pow (n + k)) = IZR c / IZR (ten_pow n))%R.
Proof.
  intros Hn Hk. rewrite IZR_ten_pow_add by assumption. rewrite mult_IZR.
  pose proof (IZR_ten_pow_pos n Hn). pose proof (IZR_ten_pow_pos k Hk). field. split; lra.
Qed.

Theorem dec_addsub_exact op rop x y z :
  (forall a b, IZR (op a b) = rop (IZR a) (IZR b)) ->
  (forall a b c, (rop a b / c = rop (a / c) (b / c))%R) ->
  dec_ok x -> dec_ok y -> dec_addsub op x y = Ok z ->
  dec_ok z /\ dval z = rop (dval x) (dval y).
Proof.
  intros Hop Hdist Hx Hy H. destruct (dec_addsub_spec op x y z Hx Hy H) as [En Ec].
  unfold dec_ok in *. split; [rewrite En; lia|]. unfold dval. rewrite Ec, En, Hop, Hdist.
  set (n := Z.max (d_nfd x) (d_nfd y)).
  replace n with (d_nfd x + (n - d_nfd x)) at 2 by ring. replace n with (d_nfd y + (n - d_nfd y)) at 4 by ring.
  rewrite !dval_scaled by lia. reflexivity.
Qed.

Theorem dec_add_exact x y z : dec_ok x -> dec_ok y -> dec_add x y = Ok z -> dec_ok z /\ dval z = (dval x + dval y)%R.
Proof. apply (dec_addsub_exact Z.add Rplus); [apply plus_IZR|intros; unfold Rdiv; ring]. Qed.
Theorem dec_sub_exact x y z : dec_ok x -> dec_ok y -> dec_sub x y = Ok z -> dec_ok z /\ dval z = (dval x - dval y)%R.
Proof. apply (dec_addsub_exact Z.sub Rminus); [apply minus_IZR|intros; unfold Rdiv; ring]. Qed.

(** a rounded numerator: |c * 10^k - N| <= 10^k / 2  gives  |c/10^n - N/10^(n+k)| <= 1/(2 * 10^n) *)
Lemma rounded_value c n k N : 0 <= n -> 0 <= k -> 2 * Z.abs (c * ten_pow k - N) <= ten_pow k ->
  (Rabs (IZR c / IZR (ten_pow n) - IZR N / IZR (ten_pow (n + k))) <= / 2 * / IZR (ten_pow n))%R.
Proof.
  intros Hn Hk H. rewrite dval_diff by assumption. rewrite IZR_ten_pow_add by assumption.
  pose proof (IZR_ten_pow_pos n Hn) as Pn. pose proof (IZR_ten_pow_pos k Hk) as Pk.
  unfold Rdiv. rewrite Rabs_mult, Rabs_inv, (Rabs_pos_eq (_ * _)) by (apply Rlt_le, Rmult_lt_0_compat; assumption).
  rewrite <- abs_IZR. apply IZR_le in H. rewrite mult_IZR in H.
  rewrite Rinv_mult. apply Rmult_le_reg_r with (IZR (ten_pow k)); [exact Pk|].
  replace (IZR (Z.abs (c * ten_pow k - N)) * (/ IZR (ten_pow n) * / IZR (ten_pow k)) * IZR (ten_pow k))%R
    with (IZR (Z.abs (c * ten_pow k - N)) * / IZR (ten_pow n))%R by (field; split; lra).
  replace (/ 2 * / IZR (ten_pow n) * IZR (ten_pow k))%R with ((/ 2 * IZR (ten_pow k)) * / IZR (ten_pow n))%R by (field; lra).
  apply Rmult_le_compat_r; [apply Rlt_le, Rinv_0_lt_compat; exact Pn|]. lra.
Qed.

Lemma dval_zero_coeff d : d_coeff d = 0 -> dval d = 0%R.
Proof. intros E. unfold dval. rewrite E. unfold Rdiv. apply Rmult_0_l. Qed.
Lemma dval_one d : dec_ok d -> dec_eq_one d = true -> dval d = 1%R.
Proof.
  intros Hd E. apply Z.eqb_eq in E. unfold dval. rewrite E. unfold dec_ok in Hd. pose proof (IZR_ten_pow_pos (d_nfd d) (proj1 Hd)). field. lra.
Qed.
Lemma half_ulp18_pos : (0 < half_ulp18)%R.
Proof. unfold half_ulp18. pose proof (IZR_ten_pow_pos 18 ltac:(lia)). apply Rmult_lt_0_compat; [lra|apply Rinv_0_lt_compat; assumption]. Qed.

(** multiplication: within half a unit of the 18th digit; exact when the
    operands have at most 18 fractional digits together *)
Theorem dec_mul_acc x y z : dec_ok x -> dec_ok y -> dec_mul x y = Ok z ->
  dec_ok z /\ (Rabs (dval z - dval x * dval y) <= half_ulp18)%R /\
  (d_nfd x + d_nfd y <= 18 -> dval z = (dval x * dval y)%R).
Proof.
  intros Hx Hy H. split; [exact (dec_mul_ok x y z Hx Hy H)|]. revert H. unfold dec_mul.
  pose proof half_ulp18_pos as Hh.
  assert (exact_case : forall v, dval z = v -> (Rabs (dval z - v) <= half_ulp18)%R /\ (d_nfd x + d_nfd y <= 18 -> dval z = v)).
  { intros v ->. split; [|reflexivity]. replace (v - v)%R with 0%R by ring. rewrite Rabs_R0. lra. }
  destruct (dec_eq_zero x || dec_eq_zero y) eqn:Ez.
  { intros [= <-]. apply exact_case. unfold dval at 1. cbn. apply orb_true_iff in Ez. unfold dec_eq_zero in Ez.
    destruct Ez as [E|E]; apply Z.eqb_eq in E; [rewrite (dval_zero_coeff x E)|rewrite (dval_zero_coeff y E)]; lra. }
  destruct (dec_eq_one y) eqn:E1y. { intros [= <-]. apply exact_case. rewrite (dval_one y Hy E1y). ring. }
  destruct (dec_eq_one x) eqn:E1x. { intros [= <-]. apply exact_case. rewrite (dval_one x Hx E1x). ring. }
  unfold checked_mul_rounded, max_nfd. unfold dec_ok in Hx, Hy.
  assert (Eprod : (dval x * dval y = IZR (d_coeff x * d_coeff y) / IZR (ten_pow (d_nfd x + d_nfd y)))%R).
  { unfold dval. rewrite IZR_ten_pow_add, mult_IZR by lia.
    pose proof (IZR_ten_pow_pos (d_nfd x) ltac:(lia)). pose proof (IZR_ten_pow_pos (d_nfd y) ltac:(lia)). field. split; lra. }
  destruct (Z.geb_spec 18 (d_nfd x + d_nfd y)) as [E|E].
  - unfold chk. destruct (in_i128 _); [|discriminate]. intros [= <-]. apply exact_case. rewrite Eprod. reflexivity.
  - set (k := d_nfd x + d_nfd y - 18). assert (Hk : 0 <= k) by (unfold k; lia).
    assert (fin : forall r, 2 * Z.abs (r * ten_pow k - d_coeff x * d_coeff y) <= ten_pow k ->
       (Rabs (dval (mkdec r 18) - dval x * dval y) <= half_ulp18)%R /\ (d_nfd x + d_nfd y <= 18 -> dval (mkdec r 18) = (dval x * dval y)%R)).
    { intros r Hr. split; [|intros; exfalso; lia]. rewrite Eprod. replace (d_nfd x + d_nfd y) with (18 + k) by (unfold k; ring).
      unfold dval, half_ulp18. cbn [d_coeff d_nfd]. apply rounded_value; [lia|exact Hk|exact Hr]. }
    unfold chk. destruct (in_i128 _).
    + destruct (i128_div_rounded _ _) as [r|] eqn:Er; cbn [bind]; [|discriminate]. intros [= <-].
      apply fin. destruct (i128_div_rounded_spec _ _ _ Er) as [_ S]. rewrite (Z.abs_eq (ten_pow k)) in S by (apply Z.lt_le_incl, ten_pow_pos; exact Hk). exact S.
    + destruct (i128_mul_div_ten_pow_rounded _ _ _) as [r|] eqn:Er; cbn [bind]; [|discriminate]. intros [= <-].
      apply fin. apply (mul_div_ten_pow_spec _ _ _ _ Hk Er).
Qed.

(** * normalisation keeps the value *)
Lemma normalize_loop_value fuel c n : 0 <= n ->
  let '(c', n') := normalize_loop fuel c n in
  0 <= n' <= n /\ c = c' * ten_pow (n - n').
Proof.
  revert c n. induction fuel as [|f IH]; intros c n Hn; cbn [normalize_loop].
  - split; [lia|]. rewrite Z.sub_diag. unfold ten_pow. cbn. ring.
  - destruct ((c mod 10 =? 0) && (0 <? n)) eqn:E.
    + apply andb_true_iff in E as [E1 E2]. apply Z.eqb_eq in E1. apply Z.ltb_lt in E2.
      specialize (IH (c / 10) (n - 1) ltac:(lia)). destruct (normalize_loop f (c / 10) (n - 1)) as [c' n'].
      destruct IH as [B Ec]. split; [lia|].
      replace (n - n') with ((n - 1 - n') + 1) by ring. rewrite ten_pow_add by lia.
      replace (ten_pow 1) with 10 by reflexivity.
      rewrite Z.mul_assoc, <- Ec. pose proof (Z.div_mod c 10 ltac:(lia)). lia.
    + split; [lia|]. rewrite Z.sub_diag. unfold ten_pow. cbn. ring.
Qed.

Lemma normalize_value c n : 0 <= n <= 18 -> dec_ok (normalize c n) /\ dval (normalize c n) = (IZR c / IZR (ten_pow n))%R.
Proof.
  intros Hn. unfold normalize. destruct (Z.eqb_spec c 0) as [->|Hc].
  - split; [unfold dec_ok; cbn; lia|]. unfold dval. cbn [d_coeff d_nfd]. unfold Rdiv. rewrite !Rmult_0_l. reflexivity.
  - pose proof (normalize_loop_value (Z.to_nat n) c n (proj1 Hn)) as H.
    destruct (normalize_loop (Z.to_nat n) c n) as [c' n']. destruct H as [B Ec].
    split; [unfold dec_ok; cbn; lia|]. unfold dval. cbn [d_coeff d_nfd]. rewrite Ec.
    replace n with (n' + (n - n')) at 2 by ring. rewrite dval_scaled by lia. reflexivity.
Qed.

(** * division *)
Theorem dec_div_acc x y z : dec_ok x -> dec_ok y -> dec_div x y = Ok z ->
  dec_ok z /\ dval y <> 0%R /\ (Rabs (dval z - dval x / dval y) <= half_ulp18)%R.
Proof.
  intros Hx Hy. unfold dec_div. pose proof half_ulp18_pos as Hh. unfold dec_ok in Hx, Hy.
  pose proof (IZR_ten_pow_pos (d_nfd x) (proj1 Hx)) as Px. pose proof (IZR_ten_pow_pos (d_nfd y) (proj1 Hy)) as Py.
  destruct (dec_eq_zero y) eqn:Ezy; [discriminate|]. unfold dec_eq_zero in Ezy. apply Z.eqb_neq in Ezy.
  assert (Hy0 : dval y <> 0%R).
  { unfold dval. intros E. apply Rmult_integral in E. destruct E as [E|E]; [apply eq_IZR in E; contradiction|].
    pose proof (Rinv_0_lt_compat _ Py). lra. }
  destruct (dec_eq_zero x) eqn:Ezx.
  { intros [= <-]. split; [unfold dec_ok; cbn; lia|]. split; [exact Hy0|]. apply Z.eqb_eq in Ezx.
    rewrite (dval_zero_coeff x Ezx). unfold dval at 1. cbn. unfold Rdiv. rewrite !Rmult_0_l, Rminus_0_r, Rabs_R0. lra. }
  destruct (dec_eq_one y) eqn:E1y.
  { intros [= <-]. split; [exact Hx|]. split; [exact Hy0|]. rewrite (dval_one y Hy E1y).
    replace (dval x - dval x / 1)%R with 0%R by field. rewrite Rabs_R0. lra. }
  destruct (checked_div_rounded _ _ _ _ _) as [c|] eqn:Ec; cbn [bind]; [|discriminate]. intros [= <-].
  destruct (normalize_value c max_nfd ltac:(unfold max_nfd; lia)) as [Ok1 Ev]. split; [exact Ok1|]. split; [exact Hy0|].
  rewrite Ev. unfold max_nfd in *.
  (* the rounded coefficient: 2 |c * cy - cx * 10^s| <= |cy| with s = 18 + ny - nx *)
  set (s := 18 + d_nfd y - d_nfd x). assert (Hs : 0 <= s) by (unfold s; lia).
  assert (S : d_coeff y <> 0 /\ 2 * Z.abs (c * d_coeff y - d_coeff x * ten_pow s) <= Z.abs (d_coeff y)).
  { revert Ec. unfold checked_div_rounded. fold s.
    destruct (Z.compare_spec (d_nfd x) (18 + d_nfd y)) as [E|E|E].
    - intros Ec. replace s with 0 by (unfold s; lia). replace (ten_pow 0) with 1 by reflexivity. rewrite Z.mul_1_r.
      apply i128_div_rounded_spec. exact Ec.
    - replace (18 + d_nfd y - d_nfd x) with s by reflexivity. unfold checked_mul_pow_ten, chk.
      destruct (s >? 38); [apply shifted_div_spec; exact Hs|].
      destruct (in_i128 _); [apply i128_div_rounded_spec|apply shifted_div_spec; exact Hs].
    - exfalso. lia. }
  destruct S as [_ S].
  (* x / y = cx * 10^s / (cy * 10^18) *)
  pose proof (IZR_ten_pow_pos 18 ltac:(lia)) as P18. pose proof (IZR_ten_pow_pos s Hs) as Ps.
  assert (Hcy : IZR (d_coeff y) <> 0%R) by (intros E; apply eq_IZR in E; contradiction).
  assert (Es : (IZR (ten_pow s) * IZR (ten_pow (d_nfd x)) = IZR (ten_pow 18) * IZR (ten_pow (d_nfd y)))%R).
  { rewrite <- !IZR_ten_pow_add by lia. f_equal. f_equal. unfold s. ring. }
  assert (Eq : (IZR c / IZR (ten_pow 18) - dval x / dval y =
               IZR (c * d_coeff y - d_coeff x * ten_pow s) / (IZR (d_coeff y) * IZR (ten_pow 18)))%R).
  { unfold dval. rewrite minus_IZR, !mult_IZR.
    replace (IZR (d_coeff x) / IZR (ten_pow (d_nfd x)) / (IZR (d_coeff y) / IZR (ten_pow (d_nfd y))))%R
      with (IZR (d_coeff x) * IZR (ten_pow (d_nfd y)) / (IZR (d_coeff y) * IZR (ten_pow (d_nfd x))))%R by (field; repeat split; lra).
    assert (Ey : IZR (ten_pow (d_nfd y)) = (IZR (ten_pow s) * IZR (ten_pow (d_nfd x)) / IZR (ten_pow 18))%R) by (rewrite Es; field; lra).
    rewrite Ey. field. repeat split; lra. }
  rewrite Eq. unfold Rdiv. rewrite Rabs_mult, Rabs_inv, Rabs_mult, (Rabs_pos_eq (IZR (ten_pow 18))) by lra.
  rewrite <- !abs_IZR. apply IZR_le in S. rewrite mult_IZR in S.
  assert (Pa : (0 < IZR (Z.abs (d_coeff y)))%R) by (apply IZR_lt; lia).
  unfold half_ulp18. rewrite Rinv_mult.
  apply Rmult_le_reg_r with (IZR (Z.abs (d_coeff y))); [exact Pa|].
  replace (IZR (Z.abs (c * d_coeff y - d_coeff x * ten_pow s)) * (/ IZR (Z.abs (d_coeff y)) * / IZR (ten_pow 18)) * IZR (Z.abs (d_coeff y)))%R
    with (IZR (Z.abs (c * d_coeff y - d_coeff x * ten_pow s)) * / IZR (ten_pow 18))%R by (field; split; lra).
  replace (/ 2 * / IZR (ten_pow 18) * IZR (Z.abs (d_coeff y)))%R with ((/ 2 * IZR (Z.abs (d_coeff y))) * / IZR (ten_pow 18))%R by (field; lra).
  apply Rmult_le_compat_r; [apply Rlt_le, Rinv_0_lt_compat; exact P18|]. lra.
Qed.

(** * comparison is exact *)
Lemma chk_pow_value v n w : checked_mul_pow_ten v n = Some w -> w = v * ten_pow n.
Proof. unfold checked_mul_pow_ten, chk. destruct (n >? 38); [discriminate|]. destruct (in_i128 _); [|discriminate]. intros [= <-]. reflexivity. Qed.

Lemma chk_pow_none v n : 0 <= n <= 18 -> checked_mul_pow_ten v n = None -> v * ten_pow n < i128_min \/ i128_max < v * ten_pow n.
Proof.
  intros Hn. unfold checked_mul_pow_ten, chk. destruct (Z.gtb_spec n 38); [lia|].
  unfold in_i128. set (w := v * ten_pow n).
  destruct (Z.leb_spec i128_min w), (Z.leb_spec w i128_max); cbn [andb]; try discriminate; intros _; clearbody w; lia.
Qed.

Lemma Rcompare_scaled a b n : 0 <= n -> Rcompare (IZR a / IZR (ten_pow n)) (IZR b / IZR (ten_pow n)) = (a ?= b).
Proof.
  intros Hn. pose proof (IZR_ten_pow_pos n Hn) as P. pose proof (Rinv_0_lt_compat _ P) as Pi.
  destruct (Z.compare_spec a b) as [E|E|E].
  - subst. apply Rcompare_Eq. reflexivity.
  - apply Rcompare_Lt. apply IZR_lt in E. unfold Rdiv. apply Rmult_lt_compat_r; assumption.
  - apply Rcompare_Gt. apply IZR_lt in E. unfold Rdiv. apply Rmult_lt_compat_r; assumption.
Qed.

Theorem dec_cmp_exact x y : dec_wf x -> dec_wf y -> dec_cmp x y = Rcompare (dval x) (dval y).
Proof.
  unfold dec_wf, dec_wfb, max_nfd. intros Wx Wy.
  apply andb_true_iff in Wx as [Wx Ix]. apply andb_true_iff in Wx as [Wx1 Wx2].
  apply andb_true_iff in Wy as [Wy Iy]. apply andb_true_iff in Wy as [Wy1 Wy2].
  apply Z.leb_le in Wx1, Wx2, Wy1, Wy2.
  unfold in_i128 in Ix, Iy. apply andb_true_iff in Ix as [Ix1 Ix2]. apply andb_true_iff in Iy as [Iy1 Iy2]. apply Z.leb_le in Ix1, Ix2, Iy1, Iy2.
  unfold dec_cmp, checked_adjust_coeffs, dval.
  destruct (Z.compare_spec (d_nfd x) (d_nfd y)) as [E|E|E].
  - rewrite E. symmetry. apply Rcompare_scaled. lia.
  - set (k := d_nfd y - d_nfd x). assert (Hk : 0 <= k <= 18) by (unfold k; lia).
    replace (IZR (d_coeff x) / IZR (ten_pow (d_nfd x)))%R with (IZR (d_coeff x * ten_pow k) / IZR (ten_pow (d_nfd y)))%R
      by (replace (d_nfd y) with (d_nfd x + k) by (unfold k; ring); apply dval_scaled; lia).
    destruct (checked_mul_pow_ten (d_coeff x) k) as [w|] eqn:Ew.
    + rewrite (chk_pow_value _ _ _ Ew). symmetry. apply Rcompare_scaled. lia.
    + pose proof (chk_pow_none _ _ Hk Ew) as Hbig. rewrite Rcompare_scaled by lia.
      pose proof (ten_pow_pos k (proj1 Hk)) as Pk. change i128_min with (- (i128_max + 1)) in *. assert (Pm : 0 < i128_max) by reflexivity.
      destruct (Z.gtb_spec (d_coeff x) 0) as [Hc|Hc]; symmetry.
      * apply Z.compare_gt_iff. destruct Hbig as [Hbig|Hbig]; [exfalso; nia|lia].
      * apply Z.compare_lt_iff. destruct Hbig as [Hbig|Hbig]; [lia|exfalso; nia].
  - set (k := d_nfd x - d_nfd y). assert (Hk : 0 <= k <= 18) by (unfold k; lia).
    replace (IZR (d_coeff y) / IZR (ten_pow (d_nfd y)))%R with (IZR (d_coeff y * ten_pow k) / IZR (ten_pow (d_nfd x)))%R
      by (replace (d_nfd x) with (d_nfd y + k) by (unfold k; ring); apply dval_scaled; lia).
    destruct (checked_mul_pow_ten (d_coeff y) k) as [w|] eqn:Ew.
    + rewrite (chk_pow_value _ _ _ Ew). symmetry. apply Rcompare_scaled. lia.
    + pose proof (chk_pow_none _ _ Hk Ew) as Hbig. rewrite Rcompare_scaled by lia.
      pose proof (ten_pow_pos k (proj1 Hk)) as Pk. change i128_min with (- (i128_max + 1)) in *. assert (Pm : 0 < i128_max) by reflexivity.
      destruct (Z.ltb_spec (d_coeff y) 0) as [Hc|Hc]; symmetry.
      * apply Z.compare_gt_iff. destruct Hbig as [Hbig|Hbig]; [lia|exfalso; nia].
      * apply Z.compare_lt_iff. destruct Hbig as [Hbig|Hbig]; [exfalso; nia|lia].
Qed.

Theorem dec_eqb_exact x y : dec_wf x -> dec_wf y -> (dec_eqb x y = true <-> dval x = dval y).
Proof.
  intros Wx Wy. assert (Hx : dec_ok x) by (unfold dec_wf, dec_wfb, max_nfd in Wx; unfold dec_ok; lia).
  assert (Hy : dec_ok y) by (unfold dec_wf, dec_wfb, max_nfd in Wy; unfold dec_ok; lia).
  rewrite <- (dec_cmp_eq_iff x y Hx Hy), (dec_cmp_exact x y Wx Wy). split.
  - apply Rcompare_Eq_inv.
  - apply Rcompare_Eq.
Qed.

(** * totality: the operations return a value when the result is of moderate size *)
Lemma in_i128_abs z : Z.abs z <= i128_max -> in_i128 z = true.
Proof.
  intros H. unfold in_i128. change i128_min with (- (i128_max + 1)).
  apply andb_true_iff. split; apply Z.leb_le; lia.
Qed.

Lemma round_quot_total q r d : i128_min - 1 <= q < i128_max -> exists z, round_quot q r d = Ok z.
Proof.
  intros H. unfold round_quot. destruct (r =? 0); [eexists; reflexivity|].
  destruct (_ || _); [|eexists; reflexivity]. unfold ovf.
  assert (E : in_i128 (q + 1) = true) by (unfold in_i128; apply andb_true_iff; split; apply Z.leb_le; lia).
  rewrite E. eexists; reflexivity.
Qed.

Lemma div_abs_bound n d : 0 < d -> - Z.abs n <= n / d <= Z.abs n / d.
Proof.
  intros Hd. destruct (Z.le_gt_cases 0 n) as [Hn|Hn].
  - rewrite (Z.abs_eq n) by exact Hn. split; [|reflexivity]. pose proof (Z.div_pos n d Hn Hd). lia.
  - rewrite (Z.abs_neq n) by lia. split.
    + rewrite Z.opp_involutive. apply (Z.div_le_lower_bound n d n Hd). nia.
    + apply Z.le_trans with 0; [apply Z.lt_le_incl, Z.div_lt_upper_bound; lia|apply Z.div_pos; lia].
Qed.

Lemma i128_div_rounded_total n d : d <> 0 -> Z.abs n <= i128_max -> Z.abs d <= i128_max ->
  Z.abs n / Z.abs d < i128_max -> exists z, i128_div_rounded n d = Ok z.
Proof.
  intros Hd Hn Hdm Hq. unfold i128_div_rounded. destruct (Z.eqb_spec d 0); [contradiction|].
  unfold flip_signs, ovf. change i128_min with (- (i128_max + 1)).
  destruct (Z.ltb_spec d 0) as [Ed|Ed].
  - rewrite (in_i128_abs (- n)) by (rewrite Z.abs_opp; exact Hn). rewrite (in_i128_abs (- d)) by (rewrite Z.abs_opp; exact Hdm). cbn [bind].
    apply round_quot_total. change i128_min with (- (i128_max + 1)).
    pose proof (div_abs_bound (- n) (- d) ltac:(lia)) as B. rewrite Z.abs_opp in B. rewrite (Z.abs_neq d) in Hq by lia. lia.
  - cbn [bind]. apply round_quot_total. change i128_min with (- (i128_max + 1)).
    pose proof (div_abs_bound n d ltac:(lia)) as B. rewrite (Z.abs_eq d) in Hq by lia. lia.
Qed.

Lemma shifted_div_total n p d : d <> 0 -> Z.abs n <= i128_max -> Z.abs d <= i128_max ->
  Z.abs n * ten_pow p / Z.abs d < i128_max -> exists z, i128_shifted_div_rounded n p d = Ok z.
Proof.
  intros Hd Hn Hdm Hq. unfold i128_shifted_div_rounded. destruct (Z.eqb_spec d 0); [contradiction|].
  assert (core : forall n' d', Z.abs n' = Z.abs n -> d' = Z.abs d ->
     exists z, (let m := Z.abs n' * ten_pow p in
       if m / d' >? i128_max then Panic PAmount
       else if n' <? 0 then round_quot (- (m / d') - 1) (d' - m mod d') d' else round_quot (m / d') (m mod d') d') = Ok z).
  { intros n' d' En ->. cbv zeta. rewrite En. set (aq := Z.abs n * ten_pow p / Z.abs d) in *.
    assert (0 <= aq).
    { unfold aq. apply Z.div_pos; [|lia]. unfold ten_pow. pose proof (Z.pow_nonneg 10 p ltac:(lia)). nia. }
    destruct (Z.gtb_spec aq i128_max); [lia|].
    destruct (n' <? 0); apply round_quot_total; change i128_min with (- (i128_max + 1)); lia. }
  unfold flip_signs, ovf. destruct (Z.ltb_spec d 0) as [Ed|Ed].
  - rewrite (in_i128_abs (- n)) by (rewrite Z.abs_opp; exact Hn). rewrite (in_i128_abs (- d)) by (rewrite Z.abs_opp; exact Hdm). cbn [bind].
    apply core; [apply Z.abs_opp|rewrite Z.abs_neq; lia].
  - cbn [bind]. apply core; [reflexivity|rewrite Z.abs_eq; lia].
Qed.

Lemma ten_pow_mono a b : 0 <= a <= b -> ten_pow a <= ten_pow b.
Proof. intros H. unfold ten_pow. apply Z.pow_le_mono_r; lia. Qed.

Theorem dec_addsub_total op x y : dec_ok x -> dec_ok y ->
  (forall a b, Z.abs (op a b) <= Z.abs a + Z.abs b) ->
  Z.abs (d_coeff x) * ten_pow (18 - d_nfd x) + Z.abs (d_coeff y) * ten_pow (18 - d_nfd y) <= i128_max ->
  exists z, dec_addsub op x y = Ok z.
Proof.
  unfold dec_ok. intros Hx Hy Hop Hb. unfold dec_addsub, mul_pow_ten, ovf.
  pose proof (ten_pow_pos (18 - d_nfd x) ltac:(lia)) as Px. pose proof (ten_pow_pos (18 - d_nfd y) ltac:(lia)) as Py.
  assert (Hcx : Z.abs (d_coeff x) <= Z.abs (d_coeff x) * ten_pow (18 - d_nfd x)) by nia.
  assert (Hcy : Z.abs (d_coeff y) <= Z.abs (d_coeff y) * ten_pow (18 - d_nfd y)) by nia.
  destruct (Z.compare_spec (d_nfd x) (d_nfd y)) as [E|E|E].
  - rewrite in_i128_abs by (pose proof (Hop (d_coeff x) (d_coeff y)); lia). cbn [bind]. eexists; reflexivity.
  - assert (Ht : Z.abs (d_coeff x * ten_pow (d_nfd y - d_nfd x)) <= Z.abs (d_coeff x) * ten_pow (18 - d_nfd x)).
    { rewrite Z.abs_mul, (Z.abs_eq (ten_pow _)) by (apply Z.lt_le_incl, ten_pow_pos; lia).
      apply Z.mul_le_mono_nonneg_l; [lia|apply ten_pow_mono; lia]. }
    rewrite in_i128_abs by lia. cbn [bind].
    rewrite in_i128_abs by (pose proof (Hop (d_coeff x * ten_pow (d_nfd y - d_nfd x)) (d_coeff y)); lia). cbn [bind]. eexists; reflexivity.
  - assert (Ht : Z.abs (d_coeff y * ten_pow (d_nfd x - d_nfd y)) <= Z.abs (d_coeff y) * ten_pow (18 - d_nfd y)).
    { rewrite Z.abs_mul, (Z.abs_eq (ten_pow _)) by (apply Z.lt_le_incl, ten_pow_pos; lia).
      apply Z.mul_le_mono_nonneg_l; [lia|apply ten_pow_mono; lia]. }
    rewrite in_i128_abs by lia. cbn [bind].
    rewrite in_i128_abs by (pose proof (Hop (d_coeff x) (d_coeff y * ten_pow (d_nfd x - d_nfd y))); lia). cbn [bind]. eexists; reflexivity.
Qed.

Theorem dec_mul_total x y : dec_ok x -> dec_ok y ->
  Z.abs (d_coeff x * d_coeff y) / ten_pow (Z.max 0 (d_nfd x + d_nfd y - 18)) < i128_max ->
  exists z, dec_mul x y = Ok z.
Proof.
  unfold dec_ok. intros Hx Hy Hb. unfold dec_mul.
  destruct (_ || _); [eexists; reflexivity|]. destruct (dec_eq_one y); [eexists; reflexivity|]. destruct (dec_eq_one x); [eexists; reflexivity|].
  unfold checked_mul_rounded, max_nfd. destruct (Z.geb_spec 18 (d_nfd x + d_nfd y)) as [E|E].
  - rewrite Z.max_l in Hb by lia. change (ten_pow 0) with 1 in Hb. rewrite Z.div_1_r in Hb.
    unfold chk. rewrite in_i128_abs by lia. eexists; reflexivity.
  - rewrite Z.max_r in Hb by lia. set (k := d_nfd x + d_nfd y - 18) in *. assert (Hk : 1 <= k) by (unfold k; lia).
    pose proof (ten_pow_pos k ltac:(lia)) as Pk.
    assert (P10 : 10 <= ten_pow k) by (change 10 with (ten_pow 1); apply ten_pow_mono; lia).
    unfold chk. destruct (in_i128 (d_coeff x * d_coeff y)) eqn:Ei.
    + assert (exists r, i128_div_rounded (d_coeff x * d_coeff y) (ten_pow k) = Ok r) as [r ->]; [|cbn [bind]; eexists; reflexivity].
      unfold i128_div_rounded, flip_signs. destruct (Z.eqb_spec (ten_pow k) 0); [lia|]. destruct (Z.ltb_spec (ten_pow k) 0); [lia|]. cbn [bind].
      apply round_quot_total. unfold in_i128 in Ei. apply andb_true_iff in Ei as [E1 E2]. apply Z.leb_le in E1, E2.
      set (c := d_coeff x * d_coeff y) in *. change i128_min with (- (i128_max + 1)) in *. assert (0 < i128_max) by reflexivity.
      pose proof (div_abs_bound c (ten_pow k) Pk) as B.
      assert (Z.abs c / ten_pow k <= Z.abs c / 10) by (apply Z.div_le_compat_l; lia).
      assert (Z.abs c / 10 < i128_max) by (apply Z.div_lt_upper_bound; lia). lia.
    + assert (exists r, i128_mul_div_ten_pow_rounded (d_coeff x) (d_coeff y) k = Ok r) as [r ->]; [|cbn [bind]; eexists; reflexivity].
      unfold i128_mul_div_ten_pow_rounded. rewrite <- Z.abs_mul. set (aq := Z.abs (d_coeff x * d_coeff y) / ten_pow k) in *.
      assert (0 <= aq) by (apply Z.div_pos; lia).
      destruct (Z.gtb_spec aq i128_max); [lia|].
      destruct (negb _); apply round_quot_total; change i128_min with (- (i128_max + 1)); lia.
Qed.

Theorem dec_div_total x y : dec_ok x -> dec_ok y ->
  Z.abs (d_coeff x) <= i128_max -> Z.abs (d_coeff y) <= i128_max -> d_coeff y <> 0 ->
  Z.abs (d_coeff x) * ten_pow (18 + d_nfd y - d_nfd x) / Z.abs (d_coeff y) < i128_max ->
  exists z, dec_div x y = Ok z.
Proof.
  unfold dec_ok. intros Hx Hy Bx By Hy0 Hq. unfold dec_div, dec_eq_zero.
  destruct (Z.eqb_spec (d_coeff y) 0); [contradiction|].
  destruct (d_coeff x =? 0); [eexists; reflexivity|]. destruct (dec_eq_one y); [eexists; reflexivity|].
  assert (exists c, checked_div_rounded (d_coeff x) (d_nfd x) (d_coeff y) (d_nfd y) max_nfd = Ok c) as [c ->]; [|cbn [bind]; eexists; reflexivity].
  unfold checked_div_rounded, max_nfd. set (s := 18 + d_nfd y - d_nfd x) in *.
  destruct (Z.compare_spec (d_nfd x) (18 + d_nfd y)) as [E|E|E].
  - replace s with 0 in Hq by (unfold s; lia). change (ten_pow 0) with 1 in Hq. rewrite Z.mul_1_r in Hq.
    apply i128_div_rounded_total; assumption.
  - assert (Hs : 1 <= s) by (unfold s; lia). unfold checked_mul_pow_ten, chk.
    destruct (s >? 38); [apply shifted_div_total; assumption|].
    destruct (in_i128 (d_coeff x * ten_pow s)) eqn:Ei; [|apply shifted_div_total; assumption].
    apply i128_div_rounded_total; [exact Hy0| |exact By|rewrite Z.abs_mul, (Z.abs_eq (ten_pow s)) by (apply Z.lt_le_incl, ten_pow_pos; lia); exact Hq].
    unfold in_i128 in Ei. apply andb_true_iff in Ei as [E1 E2]. apply Z.leb_le in E1, E2.
    assert (Hm : (d_coeff x * ten_pow s) mod 10 = 0).
    { replace s with (1 + (s - 1)) by ring. rewrite ten_pow_add by lia. change (ten_pow 1) with 10.
      rewrite Z.mul_assoc, (Z.mul_comm _ 10), <- Z.mul_assoc, Z.mul_comm. apply Z.mod_mul. lia. }
    set (w := d_coeff x * ten_pow s) in *. clearbody w.
    assert (w <> i128_min) by (intros ->; vm_compute in Hm; discriminate).
    change i128_min with (- (i128_max + 1)) in *. lia.
  - exfalso. lia.
Qed.

(** * the negations are harmless on moderate values *)
Lemma dec_neg_val x : dec_ok x -> dval (dec_neg x) = (- dval x)%R.
Proof. intros _. unfold dval, dec_neg. cbn [d_coeff d_nfd]. rewrite opp_IZR. unfold Rdiv. ring. Qed.
Lemma dec_abs_val x : dec_ok x -> dval (dec_abs x) = Rabs (dval x).
Proof.
  intros Hx. unfold dval, dec_abs. cbn [d_coeff d_nfd]. rewrite abs_IZR. unfold Rdiv.
  rewrite Rabs_mult, (Rabs_pos_eq (/ _)); [reflexivity|]. apply Rlt_le, Rinv_0_lt_compat, IZR_ten_pow_pos. apply Hx.
Qed.

(** * totality from bounds on the real values *)
Definition big : R := IZR (ten_pow 19).

Lemma i128_max_gt_1e37 : ten_pow 37 < i128_max.
Proof. reflexivity. Qed.

Lemma coeff_bound_of_val d : dec_ok d -> (Rabs (dval d) < big)%R -> Z.abs (d_coeff d) < ten_pow 37.
Proof.
  intros Hd Hb. unfold dec_ok in Hd. unfold dval, big in Hb.
  pose proof (IZR_ten_pow_pos (d_nfd d) (proj1 Hd)) as P.
  unfold Rdiv in Hb. rewrite Rabs_mult, Rabs_inv, (Rabs_pos_eq (IZR (ten_pow _))) in Hb by lra.
  rewrite <- abs_IZR in Hb.
  assert (H : (IZR (Z.abs (d_coeff d)) < IZR (ten_pow 19) * IZR (ten_pow (d_nfd d)))%R).
  { apply Rmult_lt_reg_r with (/ IZR (ten_pow (d_nfd d)))%R; [apply Rinv_0_lt_compat; exact P|].
    rewrite Rmult_assoc, Rinv_r by lra. lra. }
  rewrite <- mult_IZR in H. apply lt_IZR in H. rewrite <- ten_pow_add in H by lia.
  apply Z.lt_le_trans with (1 := H). apply ten_pow_mono. lia.
Qed.

Theorem dec_mul_total_R x y : dec_ok x -> dec_ok y -> (Rabs (dval x * dval y) < big)%R -> exists z, dec_mul x y = Ok z.
Proof.
  intros Hx Hy Hb. apply dec_mul_total; [exact Hx|exact Hy|]. unfold dec_ok in Hx, Hy.
  set (m := d_nfd x + d_nfd y). set (k := Z.max 0 (m - 18)).
  pose proof (IZR_ten_pow_pos (d_nfd x) (proj1 Hx)) as Px. pose proof (IZR_ten_pow_pos (d_nfd y) (proj1 Hy)) as Py.
  assert (H : Z.abs (d_coeff x * d_coeff y) < ten_pow (19 + m)).
  { unfold dval, big in Hb.
    replace (IZR (d_coeff x) / IZR (ten_pow (d_nfd x)) * (IZR (d_coeff y) / IZR (ten_pow (d_nfd y))))%R
      with (IZR (d_coeff x * d_coeff y) * / (IZR (ten_pow (d_nfd x)) * IZR (ten_pow (d_nfd y))))%R in Hb by (rewrite mult_IZR; field; split; lra).
    assert (Pm : (0 < IZR (ten_pow (d_nfd x)) * IZR (ten_pow (d_nfd y)))%R) by (apply Rmult_lt_0_compat; assumption).
    rewrite Rabs_mult, Rabs_inv, (Rabs_pos_eq (_ * _)) in Hb by lra. rewrite <- abs_IZR in Hb.
    assert (H : (IZR (Z.abs (d_coeff x * d_coeff y)) < IZR (ten_pow 19) * (IZR (ten_pow (d_nfd x)) * IZR (ten_pow (d_nfd y))))%R).
    { apply Rmult_lt_reg_r with (/ (IZR (ten_pow (d_nfd x)) * IZR (ten_pow (d_nfd y))))%R; [apply Rinv_0_lt_compat; exact Pm|].
      rewrite Rmult_assoc, Rinv_r by lra. lra. }
    rewrite <- !mult_IZR in H. apply lt_IZR in H. unfold m. rewrite !ten_pow_add by lia. lia. }
  apply Z.lt_trans with (ten_pow 37); [|exact i128_max_gt_1e37].
  apply Z.div_lt_upper_bound; [apply ten_pow_pos; unfold k; lia|].
  rewrite <- ten_pow_add by (unfold k; lia). apply Z.lt_le_trans with (1 := H). apply ten_pow_mono. unfold k. lia.
Qed.

Theorem dec_div_total_R x y : dec_ok x -> dec_ok y ->
  Z.abs (d_coeff x) <= i128_max -> Z.abs (d_coeff y) <= i128_max -> dval y <> 0%R ->
  (Rabs (dval x / dval y) < big)%R -> exists z, dec_div x y = Ok z.
Proof.
  intros Hx Hy Bx By Hy0 Hb.
  assert (Hcy : d_coeff y <> 0) by (intros E; apply Hy0; apply dval_zero_coeff; exact E).
  apply dec_div_total; try assumption. unfold dec_ok in Hx, Hy.
  pose proof (IZR_ten_pow_pos (d_nfd x) (proj1 Hx)) as Px. pose proof (IZR_ten_pow_pos (d_nfd y) (proj1 Hy)) as Py.
  assert (Pc : (0 < IZR (Z.abs (d_coeff y)))%R) by (apply IZR_lt; lia).
  assert (Hcy' : IZR (d_coeff y) <> 0%R) by (intros E; apply eq_IZR in E; contradiction).
  (* |cx| * 10^ny < 10^19 * |cy| * 10^nx *)
  assert (H : Z.abs (d_coeff x) * ten_pow (d_nfd y) < ten_pow 19 * (Z.abs (d_coeff y) * ten_pow (d_nfd x))).
  { unfold dval, big in Hb.
    replace (IZR (d_coeff x) / IZR (ten_pow (d_nfd x)) / (IZR (d_coeff y) / IZR (ten_pow (d_nfd y))))%R
      with ((IZR (d_coeff x) * IZR (ten_pow (d_nfd y))) * / (IZR (d_coeff y) * IZR (ten_pow (d_nfd x))))%R in Hb by (field; repeat split; lra).
    rewrite Rabs_mult, Rabs_inv, !Rabs_mult, !(Rabs_pos_eq (IZR (ten_pow _))) in Hb by lra. rewrite <- !abs_IZR in Hb.
    assert (Pm : (0 < IZR (Z.abs (d_coeff y)) * IZR (ten_pow (d_nfd x)))%R) by (apply Rmult_lt_0_compat; assumption).
    assert (H : (IZR (Z.abs (d_coeff x)) * IZR (ten_pow (d_nfd y)) < IZR (ten_pow 19) * (IZR (Z.abs (d_coeff y)) * IZR (ten_pow (d_nfd x))))%R).
    { apply Rmult_lt_reg_r with (/ (IZR (Z.abs (d_coeff y)) * IZR (ten_pow (d_nfd x))))%R; [apply Rinv_0_lt_compat; exact Pm|].
      rewrite (Rmult_assoc (IZR (ten_pow 19))), Rinv_r by lra. lra. }
    rewrite <- !mult_IZR in H. apply lt_IZR in H. exact H. }
  apply Z.lt_trans with (ten_pow 37); [|exact i128_max_gt_1e37].
  apply Z.div_lt_upper_bound; [lia|].
  replace (18 + d_nfd y - d_nfd x) with (d_nfd y + (18 - d_nfd x)) by ring. rewrite ten_pow_add by lia.
  pose proof (ten_pow_pos (18 - d_nfd x) ltac:(lia)) as P18.
  assert (E37 : ten_pow 37 = ten_pow 19 * (ten_pow (d_nfd x) * ten_pow (18 - d_nfd x))).
  { rewrite <- !ten_pow_add by lia. f_equal. lia. }
  rewrite E37. nia.
Qed.

Theorem dec_addsub_total_R op x y : dec_ok x -> dec_ok y ->
  (forall a b, Z.abs (op a b) <= Z.abs a + Z.abs b) ->
  (Rabs (dval x) < big)%R -> (Rabs (dval y) < big)%R -> exists z, dec_addsub op x y = Ok z.
Proof.
  intros Hx Hy Hop Bx By. apply dec_addsub_total; try assumption. unfold dec_ok in Hx, Hy.
  assert (scaled : forall d, 0 <= d_nfd d <= 18 -> (Rabs (dval d) < big)%R -> Z.abs (d_coeff d) * ten_pow (18 - d_nfd d) < ten_pow 37).
  { intros d Hd Hb. unfold dval, big in Hb. pose proof (IZR_ten_pow_pos (d_nfd d) (proj1 Hd)) as P.
    unfold Rdiv in Hb. rewrite Rabs_mult, Rabs_inv, (Rabs_pos_eq (IZR (ten_pow _))) in Hb by lra. rewrite <- abs_IZR in Hb.
    assert (H : (IZR (Z.abs (d_coeff d)) < IZR (ten_pow 19) * IZR (ten_pow (d_nfd d)))%R).
    { apply Rmult_lt_reg_r with (/ IZR (ten_pow (d_nfd d)))%R; [apply Rinv_0_lt_compat; exact P|]. rewrite Rmult_assoc, Rinv_r by lra. lra. }
    rewrite <- mult_IZR in H. apply lt_IZR in H.
    pose proof (ten_pow_pos (18 - d_nfd d) ltac:(lia)) as P18.
    assert (E37 : ten_pow 37 = ten_pow 19 * ten_pow (d_nfd d) * ten_pow (18 - d_nfd d)).
    { rewrite <- !ten_pow_add by lia. f_equal. lia. }
    rewrite E37. nia. }
  pose proof (scaled x Hx Bx). pose proof (scaled y Hy By).
  assert (2 * ten_pow 37 <= i128_max) by (vm_compute; discriminate). lia.
Qed.

(** the 18-digit grid: two grid values closer than one unit are equal *)
Definition grid18 (r : R) : Prop := exists m : Z, r = (IZR m / IZR (ten_pow 18))%R.

Lemma dval_grid18 d : dec_ok d -> grid18 (dval d).
Proof.
  intros Hd. unfold dec_ok in Hd. exists (d_coeff d * ten_pow (18 - d_nfd d)). unfold dval.
  replace 18 with (d_nfd d + (18 - d_nfd d)) at 2 by ring. rewrite dval_scaled by lia. reflexivity.
Qed.

Lemma grid18_close a b : grid18 a -> grid18 b -> (Rabs (a - b) <= half_ulp18)%R -> a = b.
Proof.
  intros [m ->] [n ->] H. pose proof (IZR_ten_pow_pos 18 ltac:(lia)) as P.
  replace (IZR m / IZR (ten_pow 18) - IZR n / IZR (ten_pow 18))%R with (IZR (m - n) * / IZR (ten_pow 18))%R in H by (rewrite minus_IZR; field; lra).
  rewrite Rabs_mult, Rabs_inv, (Rabs_pos_eq (IZR (ten_pow 18))) in H by lra. rewrite <- abs_IZR in H. unfold half_ulp18 in H.
  assert (H2 : (IZR (Z.abs (m - n)) <= / 2)%R).
  { apply Rmult_le_reg_r with (/ IZR (ten_pow 18))%R; [apply Rinv_0_lt_compat; exact P|]. exact H. }
  assert (Z.abs (m - n) < 1) by (apply lt_IZR; lra).
  replace m with n by lia. reflexivity.
Qed.

(** a product / quotient that needs no rounding is exact *)
Corollary dec_mul_exact_on_grid x y z : dec_ok x -> dec_ok y -> dec_mul x y = Ok z -> grid18 (dval x * dval y) -> dval z = (dval x * dval y)%R.
Proof.
  intros Hx Hy H G. destruct (dec_mul_acc x y z Hx Hy H) as (Hz & Hb & _). apply grid18_close; [apply dval_grid18; exact Hz|exact G|exact Hb].
Qed.
Corollary dec_div_exact_on_grid x y z : dec_ok x -> dec_ok y -> dec_div x y = Ok z -> grid18 (dval x / dval y) -> dval z = (dval x / dval y)%R.
Proof.
  intros Hx Hy H G. destruct (dec_div_acc x y z Hx Hy H) as (Hz & _ & Hb). apply grid18_close; [apply dval_grid18; exact Hz|exact G|exact Hb].
Qed.

Theorem dec_add_total_R x y : dec_ok x -> dec_ok y -> (Rabs (dval x) < big)%R -> (Rabs (dval y) < big)%R -> exists z, dec_add x y = Ok z.
Proof. intros Hx Hy. apply (dec_addsub_total_R Z.add x y Hx Hy). intros; lia. Qed.
Theorem dec_sub_total_R x y : dec_ok x -> dec_ok y -> (Rabs (dval x) < big)%R -> (Rabs (dval y) < big)%R -> exists z, dec_sub x y = Ok z.
Proof. intros Hx Hy. apply (dec_addsub_total_R Z.sub x y Hx Hy). intros; lia. Qed.
